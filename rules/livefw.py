"""The live actor's handling of replica events, evaluated (K6'): an entry is selected for download - fetched from the
providing peer, or recorded as missing so that it is fetched once a neighbour announces the content - exactly when the
event's download flag (computed from the document's download policy, C15.R1 / C12.R3) is set."""
from . import mir

ORE = "engine::live::LiveActor::on_replica_event"


def eval_remote_insert(f, should, status):
    from . import feval as E, coll
    log = []
    C = coll.Collections(f)

    def oracle(kind, name, payload, site):
        if kind == "await":
            return E.UNIT if str(name).startswith("fut:") else None
        if kind != "call":
            return None
        t, args, it = payload
        names = [it.tokname(a).strip("&*") for a in args]
        if mir.callee_matches(t, r"engine::live::LiveActor::start_download$"):
            log.append(("start_download", names[1:]))
            return E.Tok("fut:start_download")
        if name in ("insert", "remove", "extend") and names and ("missing_hashes" in names[0] or "queued_hashes" in names[0]):
            log.append(("%s.%s" % (names[0].split(".")[-1], name), names[1:]))
            return E.Int(1)
        if name == "from_bytes":
            return E.Ok(E.Tok("peer(%s)" % names[0]))
        if name == "content_hash":
            return E.Tok("hash(%s)" % names[0])
        if name == "is_syncing":
            return E.Int(1)
        if name in ("broadcast", "broadcast_neighbors"):
            log.append((name, names[1:]))
            return E.Tok("fut:" + name)
        if name == "to_stdvec":
            return E.Ok(E.Tok("bytes(%s)" % names[0]))
        if name == "fmt_short":
            return E.Tok("short")
        return C.handle(kind, name, payload, site)
    EVT, CS = "sync::Event", "sync::ContentStatus"
    evt = E.variant(f, EVT, "RemoteInsert", namespace=E.Tok("ns"), entry=E.Tok("entry"), should_download=E.Int(should), remote_content_status=E.variant(f, CS, status), **{"from": E.Tok("from")})
    try:
        ret, hp, evs = E.run_async(f, ORE, [E.href("this"), evt], {"this": E.Tok("actor")}, oracle)
        return E.describe(ret, f), log
    except E.Unsupported as e:
        return "UNSUPPORTED-FORM: %s" % e, log


def check_download_selection(ctx, rule):
    f = ctx.facts
    b = f.body(ORE + "::{closure#0}")
    ctx.touch(b)
    statuses = [v["name"] for v in f.adt("sync::ContentStatus")["variants"]]
    for should in (0, 1):
        for st in statuses:
            got, log = eval_remote_insert(f, should, st)
            dl = [x for x in log if x[0] == "start_download"]
            miss = [x for x in log if x[0] == "missing_hashes.insert"]
            other = [x for x in log if x not in dl and x not in miss]
            if should:
                ok = got == "Ok(())" and len(dl) + len(miss) == 1 and not other
                if dl:
                    ok = ok and dl[0][1][:3] == ["ns", "hash(entry)", "peer(from)"]
                if miss:
                    ok = ok and miss[0][1] == ["hash(entry)"]
                spec = "the content of this entry is fetched from the providing peer or recorded as missing - exactly one of the two"
            else:
                ok = got == "Ok(())" and not log
                spec = "nothing is fetched, queued or recorded"
            ctx.check(ok, rule, ORE, "remote-insert[should_download=%d,%s]" % (should, st), "returns %s, effects %s; spec: %s" % (got, log, spec), b.sp)


OSR = "engine::live::LiveActor::on_sync_report"


def eval_sync_report(f, syncing, decode, news):
    """the live actor's handler of a gossiped sync report: (result, log)"""
    from . import feval as E, coll
    log = []
    C = coll.Collections(f)

    def oracle(kind, name, payload, site):
        if kind == "await":
            if str(name) == "fut:has_news_for_us":
                return {"none": E.Ok(E.NONE), "some": E.Ok(E.Some(E.Tok("n-authors"))), "err": E.Err(E.Tok("actor-error"))}[news]
            return E.UNIT if str(name).startswith("fut:") else None
        if kind != "call":
            return None
        t, args, it = payload
        names = [it.tokname(a).strip("&*") for a in args]
        if name == "is_syncing":
            log.append(("is_syncing", names[1:]))
            return E.Int(1 if syncing else 0)
        if mir.callee_matches(t, r"heads::AuthorHeads::decode$"):
            log.append(("decode", names))
            return E.Ok(E.Tok("heads-of(%s)" % names[0])) if decode else E.Err(E.Tok("decode-error"))
        if mir.callee_matches(t, r"actor::SyncHandle::has_news_for_us$"):
            log.append(("has_news_for_us", names[1:]))
            return E.Tok("fut:has_news_for_us")
        if mir.callee_matches(t, r"engine::live::LiveActor::sync_with_peer$"):
            log.append(("sync_with_peer", [names[1], names[2], E.describe(it.resolve(args[3]), f)]))
            return E.UNIT
        return C.handle(kind, name, payload, site)
    rep = E.struct(f, "engine::live::SyncReport", namespace=E.Tok("report.namespace"), heads=E.Tok("report.heads"))
    try:
        ret, hp, evs = E.run_async(f, OSR, [E.href("this"), E.Tok("sender"), rep], {"this": E.Tok("actor")}, oracle)
        return E.describe(ret, f), log
    except E.Unsupported as e:
        return "UNSUPPORTED-FORM: %s" % e, log


def check_sync_report(ctx, rule):
    """a head report leads to a request to its sender exactly when the store flags it as news for us (C13: news exactly for
    strictly newer or unknown authors - decided by has_news_for_us, R2), judged on the heads decoded from that report for the
    document the report names; a report that cannot be decoded, or for a document we do not sync, is dropped"""
    f = ctx.facts
    b = f.body(OSR + "::{closure#0}")
    ctx.touch(b)
    for syncing in (1, 0):
        for decode in (1, 0):
            for news in ("some", "none", "err"):
                if (not syncing or not decode) and news != "some":
                    continue
                got, log = eval_sync_report(f, syncing, decode, news)
                dials = [x[1] for x in log if x[0] == "sync_with_peer"]
                asked = [x[1] for x in log if x[0] == "has_news_for_us"]
                want = bool(syncing and decode and news == "some")
                ok = got == "()" and (len(dials) == 1) == want and len(dials) <= 1
                if dials:
                    ok = ok and dials[0][:2] == ["report.namespace", "sender"]
                if syncing and decode:
                    ok = ok and asked == [["report.namespace", "heads-of(report.heads)"]]
                ctx.check(ok, rule, OSR, "report[%s,%s,news=%s]" % ("syncing" if syncing else "not-syncing", "decodes" if decode else "garbage", news if (syncing and decode) else "-"),
                          "returns %s; asked the store %s; requests %s; spec: one request to the sender of the report for the document it names iff the store flags the decoded heads as news" % (got, asked, dials), b.sp)

"""C17 — the useful-peer list is a bounded most-recently-used list."""
from . import mir, tables
from .mir import trace, origin_summary, callee_matches
from .common import find_calls, one_call, call_outcomes, TRUTH, flip
from . import paths as P

EXPLANATION = (
    'Decides structural necessary conditions of C17 from MIR: (R1) PEERS_PER_DOC_CACHE_SIZE evaluates to 5; (R2) '
    'register_useful_peer is evaluated by an abstract interpreter over its MIR (storage calls answered by an oracle, '
    "Store::modify runs the transaction body) for every table size 0..5 and every position of the peer's previous row; the "
    'recorded removes/inserts are applied to the abstract table and the result must be the bounded most-recently-used list:'
    ' previous row of the peer removed, (fresh clock value, this peer) inserted once under this namespace, the oldest row '
    'evicted exactly when the list would exceed 5; an unknown document yields an error and no write; (R4) get_sync_peers '
    "reads this namespace's rows in reverse, every row reaching the result. (R5) the API handler doc_get_sync_peers "
    'evaluated: it returns the list the store actor produced for the requested document. (R6) the file-format migration '
    'that runs on open for stores written by iroh-docs 0.94..=0.98 (migrate_redb_v2_tuples::run), evaluated on an old file '
    'holding one row per table, carries the useful-peer table (a multimap table: it has to be looked for with '
    'list_multimap_tables). (R7) the store actor forwards RegisterUsefulPeer / GetSyncPeers one to one (the store-actor handler evaluated with the fields of the request as named tokens and gates / store / replica calls answered by an oracle, each step also failing in turn: the own fields of the request reach the core function in order on the addressed document, nothing is carried out after a failed step, the reply is the result of that function; the SyncHandle method evaluated: one request of its own kind, addressed to its namespace argument, each field one of its own parameters, the reply of the actor returned). NOT decided: wall-clock monotonicity, tables that already violate the invariant (more than 5 '
    'rows, two rows of one peer).'
)
ASSUMPTIONS = ["redb multimap value order = tuple order (timestamp first)", "SystemTime is monotone enough (not decided)"]


RUP = "store::fs::Store::register_useful_peer"
NP = "namespace_peers"


EXPLANATION += ' (R8) who-may-write the peers table: register_useful_peer, remove_replica, the migrations.'
EXPLANATION += ' Round 9: R3 also carries the destructor rows of C06.R4 (registrations still in the open transaction are committed when the store goes out of scope).'
EXPLANATION += ' Round 10: (R9) = C10.R12 (when the engine registers a peer); (R10) = C16.R13 (a refused removal leaves the list alone).'


def tx_closure(f):
    """(register_useful_peer, the body that runs inside its Store::modify transaction and writes the
    peers table): the closure passed to modify, or a helper function that closure calls"""
    b = f.body(RUP)
    bi, t = one_call(b, r"store::fs::Store::modify")
    roots = [d for d in (t["f"].get("tdefs") or []) if d and d in f.bodies]
    if len(roots) != 1:
        raise mir.AnchorMissing("register_useful_peer does not pass one closure or function to modify")
    types = tables.table_types(f)
    cands = []
    for hb in f.local_callees(roots[0], depth=2, prefix="store::fs::"):
        if any((tables.call_table(ct, types) or (None, None))[:2] == (NP, "insert") for _, ct in hb.calls()):
            cands.append(hb)
    if not cands:
        raise mir.AnchorMissing("no body writing the peers table inside register_useful_peer's transaction")
    # (several: the closure and the helpers it calls - the evaluation starts at the function and inlines them)
    return b, (cands[0] if len(cands) == 1 else f.body(roots[0]))


def outer_names(f, outer, body, op):
    """provenance of `op` (in the transaction body) expressed as parameters / locals of register_useful_peer"""
    from .common import ip_trace, lift_origins
    scope = [x for x in f.bodies.values() if x.path.startswith(RUP)]
    out = set()
    for b2, o in ip_trace(f, body, op, scope):
        for lo in (lift_origins(f, b2, [o], outer) if b2 is not outer else [o]):
            if lo.kind == "arg":
                out.add("arg:%s" % lo.data[1])
            elif lo.kind == "call" and _from_clock(outer, lo):
                out.add("clock")
            else:
                out.add(origin_summary(lo))
    return out


def _from_clock(outer, o, depth=0):
    """the call origin `o` computes its value from SystemTime::elapsed()"""
    if o.kind != "call" or depth > 6:
        return False
    if o.data["f"].get("name") == "elapsed":
        return True
    for a in o.data["a"][:1]:
        if a[0] == "const":
            continue
        for o2 in trace(outer, a, through_calls=False):
            if _from_clock(outer, o2, depth + 1):
                return True
    return False


def r1(ctx):
    f = ctx.facts
    c = f.const("store::PEERS_PER_DOC_CACHE_SIZE")
    # NonZeroUsize const: value visible through the literal operand of its initialiser
    val = c.get("val")
    if val is None:
        # look into get_sync_peers / any use: fall back to the initialiser body operands
        for b in f.bodies.values():
            pass
    ctx.note("PEERS_PER_DOC_CACHE_SIZE facts: %s" % c)
    lit = find_const_literal(f)
    ctx.check(lit == 5, "C17.R1", "store::PEERS_PER_DOC_CACHE_SIZE", "value", "= %s (spec: five peers per document)" % lit, c["sp"])
    ctx.floor("C17.R1", 1)


def find_const_literal(f):
    c = f.consts.get("store::PEERS_PER_DOC_CACHE_SIZE")
    if c and c.get("val") is not None:
        return c["val"]
    return c.get("lit") if c else None


def eval_register(f, n, same_idx, exists=1, other=0):
    """register_useful_peer evaluated (K6') against a peers table holding n rows (oldest first), row
    `same_idx` (or none) belonging to the peer being registered, while other documents hold `other` rows of the same
    table (the table is shared by all documents: its own len() counts them too). Store::modify runs the transaction body.
    Returns (rendered result, effect log)."""
    from . import feval as E
    types = tables.table_types(f)
    log = []
    st = {"i": 0}

    def oracle(kind, name, payload, site):
        if kind == "eq":
            a, b = str(name), str(payload)
            if "peer" in a and "peer" in b:
                x = [s0 for s0 in (a, b) if s0.startswith("peer") and s0[4:].isdigit()]
                if len(x) == 1 and (a == "peer" or b == "peer"):
                    return int(x[0][4:]) == same_idx
            return None
        if kind != "call":
            return None
        t, args, it = payload
        names = [it.tokname(a) for a in args]
        if callee_matches(t, r"store::fs::Store::modify$"):
            it.heap.setdefault("tables", E.Tok("tables"))
            return it.apply(args[1], [E.href("tables")])
        ct = tables.call_table(t, types)
        if ct and ct[0] == "namespaces" and ct[1] == "get":
            log.append(("exists?", names[1:]))
            return E.Ok(E.Some(E.Tok("g"))) if exists else E.Ok(E.NONE)
        if ct and ct[0] == NP and ct[1] == "get":
            log.append(("peers.get", names[1:]))
            return E.Ok(E.Tok("rows"))
        if ct and ct[1] in tables.WRITE_OPS:
            log.append((ct[1] if ct[0] == NP else "%s.%s" % ct[:2], names[1:]))
            return E.Ok(E.Int(0))
        if ct and ct[0] == NP and ct[1] in ("len", "is_empty"):
            # the whole table: this document's rows as written so far plus every other document's
            cur = n + other + sum(1 for e in log if e[0] == "insert") - sum(1 for e in log if e[0] == "remove")
            return E.Ok(E.Int(cur)) if ct[1] == "len" else E.Ok(E.Int(1 if cur == 0 else 0))
        if name == "next" and names and names[0] == "rows":
            i = st["i"]
            st["i"] += 1
            if i >= n:
                return E.NONE
            return E.Some(E.Ok(E.Tok("guard%d" % i)))
        if name in ("len", "count") and names and names[0] == "rows":
            return E.Ok(E.Int(n)) if name == "len" else E.Int(n - st["i"])
        if name == "into_iter":
            return args[0]
        if name == "value" and names[0].startswith("guard"):
            i = names[0][5:]
            it.heap.setdefault("peer" + i, E.Tok("peer" + i))
            return ("tuple", [E.Tok("nanos" + i), E.href("peer" + i)])
        if name == "elapsed":
            log.append(("clock",))
            return E.Ok(E.Tok("since-epoch"))
        if name == "as_nanos":
            return E.Tok("now")
        if name == "get" and names and names[0].isdigit():
            return E.Int(int(names[0]))          # NonZeroUsize::get of the evaluated constant
        if name in ("as_bytes", "to_bytes"):
            return E.Tok("b(%s)" % names[0])
        if name == "drop":
            return E.UNIT
        return None
    b = f.body(RUP)
    args = [E.href("self"), E.href("namespace") if b.locals[2]["ty"].startswith("&") else E.Tok("namespace"), E.href("peer") if b.locals[3]["ty"].startswith("&") else E.Tok("peer")]
    try:
        ret, hp, ev = E.run(f, RUP, args, {"self": E.Tok("store"), "namespace": E.Tok("namespace"), "peer": E.Tok("peer")}, oracle)
        return E.describe(ret, f), log
    except E.Unsupported as e:
        return "UNSUPPORTED-FORM: %s" % e, log


def r2(ctx):
    """the registration evaluated on every table size 0..SIZE and every position of the peer's previous row,
    simulated on the table contents, against the most-recently-used list the property describes"""
    import re as _re
    f = ctx.facts
    outer, b = tx_closure(f)
    ctx.touch(outer, b)
    SIZE = find_const_literal(f) or 5
    n_cells = 0
    for n, j, other in [(n, j, 0) for n in range(0, SIZE + 1) for j in [None] + list(range(n))] + [(n, j, SIZE + 2) for n in (0, 1, SIZE) for j in ([None, 0] if n else [None])]:
        if True:
            got, log = eval_register(f, n, j, other=other)
            n_cells += 1
            rows = ["row%d" % i for i in range(n)]
            want = [r for i, r in enumerate(rows) if i != j] + ["new"]
            if len(want) > SIZE:
                want = want[1:]
            final = list(rows)
            problems = []
            ins = 0
            for e in log:
                if e[0] == "insert":
                    ins += 1
                    if e[1] != ["b(namespace)", "(now,peer)"]:
                        problems.append("inserted row %s is not (fresh timestamp, this peer) of this namespace" % (e[1],))
                    final.append("new")
                elif e[0] == "remove":
                    m = _re.fullmatch(r"\(nanos(\d+),(peer\d*)\)", e[1][1] if len(e[1]) > 1 else "")
                    if e[1][0] != "b(namespace)" or not m or not (m.group(2) == "peer%s" % m.group(1) or (m.group(2) == "peer" and j is not None and int(m.group(1)) == j)):
                        problems.append("removed row %s is not a row of this namespace's list" % (e[1],))
                    elif "row%s" % m.group(1) in final:
                        final.remove("row%s" % m.group(1))
                elif e[0] not in ("exists?", "peers.get", "clock"):
                    problems.append("unexpected write %s" % (e,))
            if ins != 1:
                problems.append("%d inserts" % ins)
            if log.count(("clock",)) != 1:
                problems.append("clock read %d times" % log.count(("clock",)))
            if ("exists?", ["b(namespace)"]) not in log:
                problems.append("document existence not checked for this namespace")
            ok = got == "Ok(())" and not problems and sorted(final) == sorted(want)
            ctx.check(ok, "C17.R2", RUP, "register[size=%d,previous-row=%s%s]" % (n, "none" if j is None else j, ",other-documents-hold-%d-rows" % other if other else ""),
                      "returns %s; table after: %s; spec (bounded most-recently-used list of %d): %s; %s" % (got, sorted(final), SIZE, sorted(want), "; ".join(problems) or "effects " + str(log[2:])), b.sp)
    got, log = eval_register(f, 2, None, exists=0)
    writes = [e for e in log if e[0] in ("insert", "remove") or "." in e[0]]
    ctx.check(got.startswith("Err") and not writes, "C17.R2", RUP, "register[unknown-document]", "returns %s, writes %s (spec: error, nothing written)" % (got, writes), b.sp)
    ctx.floor("C17.R2", 20)


def _role(b, bi):
    # role of a call site by the debug names feeding it (no line numbers)
    return "bb-of-" + "-".join(sorted({n for n in ("oldest", "prev") if any(n in (b.local_name(a[1]["l"]) or "") for s in b.blocks[bi]["s"] for a in ([s["r"][1]] if s["k"] == "assign" and s["r"][0] == "use" and s["r"][1][0] in ("copy", "move") else []))})) or "x"


def _receiver_chain_has(body, op, call, depth=0):
    """`op` is produced by a chain of adaptor calls (receiver position) that includes `call`"""
    if depth > 6:
        return False
    for o in trace(body, op, through_calls=False):
        if o.kind == "call":
            if o.data is call:
                return True
            if o.data["a"] and o.data["a"][0][0] != "const" and _receiver_chain_has(body, o.data["a"][0], call, depth + 1):
                return True
    return False


def eval_get_sync_peers(f, g, rows, fails):
    """Store::get_sync_peers evaluated: the multimap's value iterator yields `rows` (oldest first; None = a failing row)"""
    from . import feval as E, coll
    C = coll.Collections(f)

    def oracle(kind, name, payload, site):
        if kind != "call":
            return None
        t, args, it = payload
        names = [it.tokname(a).strip("&*") for a in args]
        full = (t["f"].get("full") or "") + " " + (t["f"].get("res") or "")
        if name == "tables" and callee_matches(t, r"store::fs::Store::tables$"):
            return E.Ok(E.Tok("tables"))
        if name == "get" and "Multimap" in full:
            if fails:
                return E.Err(E.Tok("storage-error"))
            return E.Ok(coll.seq("vec", [E.Ok(E.Tok("guard:%s" % r)) if r is not None else E.Err(E.Tok("row-error")) for r in rows]))
        if name == "value" and names and names[0].startswith("guard:"):
            nm = "cell:%s" % names[0][6:]
            it.heap[nm] = E.Tok(names[0][6:])
            return ("tuple", [E.Tok("nanos"), E.href(nm)])
        if name in ("as_bytes", "get") and "NonZero" in full:
            return E.Int(5)
        if name == "as_bytes":
            return E.Tok("b(%s)" % names[0])
        return C.handle(kind, name, payload, site)
    try:
        ret, itp = E.run_it(f, g.path, [E.href("self"), E.href("namespace")], {"self": E.Tok("store"), "namespace": E.Tok("namespace")}, oracle)
        v = itp.resolve(ret)

        def render(x, d=0):
            x = itp.resolve(x)
            if coll.is_seq(x):
                return "[" + ",".join(render(y, d + 1) for y in x[2]) + "]"
            if x is not None and x[0] == "adt" and x[3] and d < 4:
                base = E.describe(("adt", x[1], x[2], {}), f)
                return base + "(" + ",".join(render(x[3][i], d + 1) for i in sorted(x[3])) + ")"
            return E.describe(x, f)
        return render(v)
    except E.Unsupported as e:
        return "UNSUPPORTED-FORM: %s" % e


def r4(ctx):
    f = ctx.facts
    g = f.body("store::fs::Store::get_sync_peers")
    ctx.touch(g)
    revs = [t for _, t in g.calls() if t["f"].get("name") == "rev"]
    gets = [t for _, t in g.calls() if t["f"].get("name") == "get" and "Multimap" in t["f"].get("full", "")]
    ok = len(revs) == 1 and len(gets) == 1 and any(o.kind == "call" and o.data["f"].get("name") == "branch" for o in trace(g, revs[0]["a"][0], through_calls=False))
    ctx.check(ok, "C17.R4", g.path, "reverse-iteration", "peers are read from namespace_peers.get(ns) in reverse (most recent first)", g.sp)
    if gets:
        k = {origin_summary(o) for o in trace(g, gets[0]["a"][1])}
        ctx.check(k == {"arg:namespace"}, "C17.R4", g.path, "reads-this-namespace", "%s" % sorted(k), gets[0]["sp"])
    # every row reaches the result: pushed in the loop over the reversed iterator, or collected from it;
    # no adaptor that drops rows in between
    fam = f.family(g.path)
    pushes = [t for x in fam for _, t in x.calls() if t["f"].get("name") == "push"]
    collects = [t for _, t in g.calls() if t["f"].get("name") in ("collect", "try_collect") and revs and _receiver_chain_has(g, t["a"][0], revs[0])]
    dropping = [t["f"].get("name") for x in fam for _, t in x.calls() if t["f"].get("name") in ("take", "skip", "filter", "filter_map", "step_by", "take_while", "skip_while", "nth", "last", "truncate", "pop", "dedup", "retain")]
    structural = (len(pushes) == 1) != (len(collects) == 1) and not dropping
    # round 12 (RF33: `Some(peers).filter(non-empty)` is not a row-dropping adaptor): the reader evaluated on scripted rows decides;
    # the site count above is kept only as the fallback when the function is not evaluable
    cells = (("three-rows", ["p1", "p2", "p3"], False), ("one-row", ["p1"], False), ("no-rows", [], False), ("failing-row", ["p1", None, "p3"], False), ("read-fails", [], True))
    problems, evaluated = [], True
    for label, rows, fails in cells:
        got = eval_get_sync_peers(f, g, rows, fails)
        if got.startswith("UNSUPPORTED"):
            evaluated = False
            problems.append("%s: %s" % (label, got))
            break
        if fails or None in rows:
            want = ["Err"]
            okc = got.startswith("Err")
        elif not rows:
            want = ["Ok(None)"]
            okc = got == "Ok(None)"
        else:
            want = ["Ok(Some([%s]))" % ",".join(reversed(rows))]
            okc = got in want
        if not okc:
            problems.append("%s: returns %s, spec %s" % (label, got, want[0]))
    if evaluated:
        ctx.check(not problems, "C17.R4", g.path, "pushes-every-row", "evaluated on %d scripted row sets of the peers table (oldest first): the answer is every row's peer, most recent first, None for none, an error for a failing row or read; deviating: %s" % (len(cells), problems), g.sp)
    else:
        ctx.check(structural, "C17.R4", g.path, "pushes-every-row",
                  "not evaluable (%s); fallback: each row's peer reaches the result once (push sites %d, collect-from-rev sites %d, row-dropping adaptors %s)" % (problems, len(pushes), len(collects), dropping), g.sp)
    ctx.floor("C17.R4", 3)


def r3(ctx):
    """a rejected registration leaves the lists of other documents alone: the shared transaction survives a failing
    transaction body (shared with C06.R4)"""
    from . import C06
    sub = type(ctx)(ctx.prop, ctx.tier, ctx.facts, ctx.cfg)
    C06.r4(sub)
    n = 0
    for o in sub.obligations:
        if "transaction-body-fails" not in o["key"] and "store-dropped" not in o["key"]:
            continue        # ("the list survives reopening the store": a store going out of scope commits its open transaction)
        o = dict(o)
        o["key"] = o["key"].replace("C06.R4", "C17.R3")
        o["rule"] = "C17.R3"
        ctx.obligations.append(o)
        n += 1
        if o["status"] != "holds":
            ctx.violations.append(o)
    ctx.analysed_bodies |= sub.analysed_bodies
    ctx.floor("C17.R3", 2)


def r5(ctx):
    """the API layer returns the list the store actor produced for the requested document"""
    from . import apifw
    apifw.check_forwarder(ctx, "C17.R5", "doc_get_sync_peers", "GetSyncPeersRequest", ["get_sync_peers(req.doc_id)"], "Ok(GetSyncPeersResponse(result-of-get_sync_peers))")
    apifw.check_client(ctx, "C17.R5", "api::Doc::get_sync_peers", "GetSyncPeersRequest")
    ctx.floor("C17.R5", 2)


def r6(ctx):
    """"the list survives reopening the store" across the file-format migration that runs on open for stores written by
    iroh-docs 0.94..=0.98"""
    from . import redbmig
    redbmig.check(ctx, "C17.R6", only={"sync-peers-1"})
    ctx.floor("C17.R6", 1)


def r7(ctx):
    """useful peers through the asynchronous handle: the request's peer is registered for the addressed document"""
    from . import actorfw
    actorfw.claim(ctx, "C17.R7", handlers=("RegisterUsefulPeer", "GetSyncPeers"), clients=("register_useful_peer", "get_sync_peers"), floor=7)


def r8(ctx):
    """who may write the useful-peers table: only a registration (Store::register_useful_peer), the removal of the document
    (Store::remove_replica) and the migrations - an import, an upgrade of the capability, a policy change or a reopen never
    touches the list ("always the five most recently registered distinct ones")"""
    f = ctx.facts
    types = tables.table_types(f)
    peers = [nm for nm, kv in types.items() if "peers" in nm]
    if len(peers) != 1:
        raise mir.AnchorMissing("expected one peers table among the fields of Tables, found %s" % peers)
    roots = {"store::fs::Store::register_useful_peer", "store::fs::Store::remove_replica"}
    nw = 0
    for b2, bi2, t2, name, op, ro in tables.writes(f, types):
        if name != peers[0] or b2.path.startswith("store::fs::migrat"):
            continue
        nw += 1
        ctx.check(f.only_reached_from(b2.path, roots), "C17.R8", b2.path, "writer-of-%s.%s" % (peers[0], op),
                  "the useful-peers table is written only by register_useful_peer and remove_replica (or helpers only they call)", t2["sp"])
    if nw < 3:
        raise mir.AnchorMissing("expected >=3 writes of the peers table (insert, remove of the oldest, removal of the document), found %d" % nw)
    ctx.floor("C17.R8", 3)


def r9(ctx):
    """what "registered" means upstream: the engine registers a peer exactly once per successful session with it, never for a
    failed or declined one (= C10.R12)"""
    from . import livefw
    livefw.check_sync_finished(ctx, "C17.R9", "useful-peer")
    ctx.floor("C17.R9", 24)

def r10(ctx):
    """a removal that is refused (the document is open) leaves the useful-peer list alone (= C16.R13)"""
    from . import C16
    C16.refused_removal_changes_nothing(ctx, "C17.R10")
    ctx.floor("C17.R10", 1)


def run(ctx):
    ctx.run_rule("C17.R1", r1)
    ctx.run_rule("C17.R2", r2)
    ctx.run_rule("C17.R3", r3)
    ctx.run_rule("C17.R4", r4)
    ctx.run_rule("C17.R5", r5)
    ctx.run_rule("C17.R6", r6)
    ctx.run_rule("C17.R7", r7)
    ctx.run_rule("C17.R8", r8)
    ctx.run_rule("C17.R9", r9)
    ctx.run_rule("C17.R10", r10)

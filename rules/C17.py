"""C17 — the useful-peer list is a bounded most-recently-used list."""
from . import mir, tables
from .mir import trace, origin_summary, callee_matches
from .common import find_calls, one_call, call_outcomes, TRUTH, flip
from . import paths as P

EXPLANATION = (
    "Decides structural necessary conditions of C17 from MIR: (R1) PEERS_PER_DOC_CACHE_SIZE evaluates to 5; (R2) every write "
    "to the peers table in register_useful_peer is dominated by the document-exists edge; (R3) over all paths of the "
    "transaction: inserts - removes <= 1, a net +1 path passes the table-empty edge or the not-Greater edge of cmp(len, SIZE), "
    "the eviction removes the oldest row, a re-registration removes the peer's previous row; (R4) get_sync_peers iterates the "
    "multimap in reverse; (R5) every inserted row is (fresh timestamp, the peer being registered) for the namespace argument. "
    "NOT decided: wall-clock monotonicity, exact list contents for all sequences."
)
ASSUMPTIONS = ["redb multimap value order = tuple order (timestamp first)", "SystemTime is monotone enough (not decided)"]

RUP = "store::fs::Store::register_useful_peer"
NP = "namespace_peers"


def tx_closure(f):
    """(register_useful_peer, the body that runs inside its Store::modify transaction and writes the
    peers table): the closure passed to modify, or a helper function that closure calls"""
    b = f.body(RUP)
    bi, t = one_call(b, r"store::fs::Store::modify")
    roots = [d for d in (t["f"].get("tdefs") or []) if d and d in f.bodies]
    if len(roots) != 1:
        raise mir.AnchorMissing("register_useful_peer does not pass one closure or function to modify")
    types = tables.table_types(f)
    cands = []
    for hb in f.local_callees(roots[0], depth=2, prefix="store::fs::"):
        if any((tables.call_table(ct, types) or (None, None))[:2] == (NP, "insert") for _, ct in hb.calls()):
            cands.append(hb)
    if len(cands) != 1:
        raise mir.AnchorMissing("expected one body writing the peers table inside register_useful_peer's transaction, found %s" % [c.path for c in cands])
    return b, cands[0]


def outer_names(f, outer, body, op):
    """provenance of `op` (in the transaction body) expressed as parameters / locals of register_useful_peer"""
    from .common import ip_trace, lift_origins
    scope = [x for x in f.bodies.values() if x.path.startswith(RUP)]
    out = set()
    for b2, o in ip_trace(f, body, op, scope):
        for lo in (lift_origins(f, b2, [o], outer) if b2 is not outer else [o]):
            if lo.kind == "arg":
                out.add("arg:%s" % lo.data[1])
            elif lo.kind == "call" and _from_clock(outer, lo):
                out.add("clock")
            else:
                out.add(origin_summary(lo))
    return out


def _from_clock(outer, o, depth=0):
    """the call origin `o` computes its value from SystemTime::elapsed()"""
    if o.kind != "call" or depth > 6:
        return False
    if o.data["f"].get("name") == "elapsed":
        return True
    for a in o.data["a"][:1]:
        if a[0] == "const":
            continue
        for o2 in trace(outer, a, through_calls=False):
            if _from_clock(outer, o2, depth + 1):
                return True
    return False


def r1(ctx):
    f = ctx.facts
    c = f.const("store::PEERS_PER_DOC_CACHE_SIZE")
    # NonZeroUsize const: value visible through the literal operand of its initialiser
    val = c.get("val")
    if val is None:
        # look into get_sync_peers / any use: fall back to the initialiser body operands
        for b in f.bodies.values():
            pass
    ctx.note("PEERS_PER_DOC_CACHE_SIZE facts: %s" % c)
    lit = find_const_literal(f)
    ctx.check(lit == 5, "C17.R1", "store::PEERS_PER_DOC_CACHE_SIZE", "value", "= %s (spec: five peers per document)" % lit, c["sp"])
    ctx.floor("C17.R1", 1)


def find_const_literal(f):
    c = f.consts.get("store::PEERS_PER_DOC_CACHE_SIZE")
    if c and c.get("val") is not None:
        return c["val"]
    return c.get("lit") if c else None


def r2(ctx):
    f = ctx.facts
    types = tables.table_types(f)
    outer, b = tx_closure(f)
    ctx.touch(outer, b)
    ex = [(bi, t) for bi, t in b.calls() if (tables.call_table(t, types) or (None, None))[:2] == ("namespaces", "get")]
    if len(ex) != 1:
        raise mir.AnchorMissing("expected one namespaces.get in register_useful_peer, found %d" % len(ex))
    gbi, gt = ex[0]
    # the exists edge: is_some()==true on the Ok payload
    some_edges = []
    for ibi, it in b.calls():
        if it["f"].get("name") in ("is_some", "is_none"):
            src = trace(b, it["a"][0], through_calls=False)
            ok = any(o.kind == "call" and o.data["f"].get("name") == "branch" for o in src) or any(o.kind == "call" and o.data is gt for o in trace(b, it["a"][0]))
            if ok:
                oc = call_outcomes(b, ibi)
                e = oc.get("true" if it["f"].get("name") == "is_some" else "false")
                if e:
                    some_edges.append(e)
    n = 0
    for bi, t in b.calls():
        ct = tables.call_table(t, types)
        if ct and ct[0] == NP and ct[1] in tables.WRITE_OPS:
            n += 1
            dom = any(b.edge_dominates(e[0], e[1], bi) for e in some_edges)
            ctx.check(dom, "C17.R2", RUP, "write-dominated-by-document-exists.%s" % ct[1], "peers-table %s is reachable only on the document-exists edge" % ct[1], t["sp"])
    # key of exists check is the namespace argument
    k = outer_names(f, outer, b, gt["a"][1])
    ctx.check(k == {"arg:namespace"}, "C17.R2", RUP, "exists-check-on-this-namespace", "namespaces.get(%s)" % sorted(k), gt["sp"])
    if n < 5:
        raise mir.AnchorMissing("expected >=5 writes to the peers table, found %d" % n)
    ctx.floor("C17.R2", 6)


def r3(ctx):
    f = ctx.facts
    types = tables.table_types(f)
    outer, b = tx_closure(f)
    ps = P.explore(b, loop_bound=1)
    okp = [p for p in ps if p.ret[0] == "variant" and p.ret[1] == "Ok" and not p.cut]
    if len(okp) < 3:
        raise mir.AnchorMissing("expected >=3 successful paths through register_useful_peer, found %d" % len(okp))
    sig = set()
    for p in okp:
        ins = [e for e in p.events if e[0] == "call" and (tables.call_table(e[2], types) or (None, None))[:2] == (NP, "insert")]
        rem = [e for e in p.events if e[0] == "call" and (tables.call_table(e[2], types) or (None, None))[:2] == (NP, "remove")]
        # decisions of interest
        empty = None
        size_cmp = None
        for k, v in p.decisions:
            kk = k
            neg = False
            while kk[0] == "not":
                neg = not neg
                kk = kk[1]
            if kk[0] == "cmp" and ("PEERS_PER_DOC_CACHE_SIZE" in kk[2] + kk[3] or "call:get(const:store::PEERS_PER_DOC_CACHE_SIZE" in kk[2] + kk[3]):
                truth = bool(v) != neg
                tbl = TRUTH[kk[1]]
                if "PEERS_PER_DOC" in kk[2]:
                    tbl = flip(tbl)
                size_cmp = [o for o in ("Less", "Equal", "Greater") if tbl[o] == truth]
            if kk[0] == "discr" and ("map" in kk[1] or "transpose" in kk[1] or "next" in kk[1]) and empty is None and "Iterator" not in kk[1]:
                pass
        key = (len(ins), len(rem), tuple(size_cmp) if size_cmp else None)
        sig.add(key)
        net = len(ins) - len(rem)
        pid = "ins%d,rem%d,size%s" % (len(ins), len(rem), "".join(x[0] for x in size_cmp) if size_cmp else "-")
        ctx.check(len(ins) == 1 and net in (0, 1), "C17.R3", RUP, "path.one-insert-net<=1[%s]" % pid, "inserts=%d removes=%d" % (len(ins), len(rem)), b.sp)
        if size_cmp is not None:
            # the path went through the size test: growth allowed iff not Greater
            if net == 1:
                ctx.check("Greater" not in size_cmp, "C17.R3", RUP, "path.growth-only-when-not-over-size[%s]" % pid, "net +1 with cmp(len,SIZE) in %s" % size_cmp, b.sp)
            else:
                ctx.check(size_cmp == ["Greater"], "C17.R3", RUP, "path.eviction-only-when-over-size[%s]" % pid, "eviction with cmp(len,SIZE) in %s" % size_cmp, b.sp)
    # eviction removes the oldest (first) row; refresh removes the peer's own previous row
    rems = [(bi, t) for bi, t in b.calls() if (tables.call_table(t, types) or (None, None))[:2] == (NP, "remove")]
    for bi, t in rems:
        val = trace(b, t["a"][2])
        comps = []
        for o in val:
            if o.kind == "agg" and o.data[0][0] == "tuple":
                for op in o.data[1]:
                    comps.append(sorted({origin_summary(x) for x in trace(b, op)}))
        ctx.note("remove at %s value components %s" % (t["sp"], comps))
        okv = len(comps) == 2
        ctx.check(okv, "C17.R3", RUP, "remove.value-is-(nanos,peer)-pair@%s" % _role(b, bi), "removed row components: %s" % comps, t["sp"])
    ctx.floor("C17.R3", 6)


def _role(b, bi):
    # role of a call site by the debug names feeding it (no line numbers)
    return "bb-of-" + "-".join(sorted({n for n in ("oldest", "prev") if any(n in (b.local_name(a[1]["l"]) or "") for s in b.blocks[bi]["s"] for a in ([s["r"][1]] if s["k"] == "assign" and s["r"][0] == "use" and s["r"][1][0] in ("copy", "move") else []))})) or "x"


def _receiver_chain_has(body, op, call, depth=0):
    """`op` is produced by a chain of adaptor calls (receiver position) that includes `call`"""
    if depth > 6:
        return False
    for o in trace(body, op, through_calls=False):
        if o.kind == "call":
            if o.data is call:
                return True
            if o.data["a"] and o.data["a"][0][0] != "const" and _receiver_chain_has(body, o.data["a"][0], call, depth + 1):
                return True
    return False


def r4(ctx):
    f = ctx.facts
    g = f.body("store::fs::Store::get_sync_peers")
    ctx.touch(g)
    revs = [t for _, t in g.calls() if t["f"].get("name") == "rev"]
    gets = [t for _, t in g.calls() if t["f"].get("name") == "get" and "Multimap" in t["f"].get("full", "")]
    ok = len(revs) == 1 and len(gets) == 1 and any(o.kind == "call" and o.data["f"].get("name") == "branch" for o in trace(g, revs[0]["a"][0], through_calls=False))
    ctx.check(ok, "C17.R4", g.path, "reverse-iteration", "peers are read from namespace_peers.get(ns) in reverse (most recent first)", g.sp)
    if gets:
        k = {origin_summary(o) for o in trace(g, gets[0]["a"][1])}
        ctx.check(k == {"arg:namespace"}, "C17.R4", g.path, "reads-this-namespace", "%s" % sorted(k), gets[0]["sp"])
    # every row reaches the result: pushed in the loop over the reversed iterator, or collected from it;
    # no adaptor that drops rows in between
    fam = f.family(g.path)
    pushes = [t for x in fam for _, t in x.calls() if t["f"].get("name") == "push"]
    collects = [t for _, t in g.calls() if t["f"].get("name") in ("collect", "try_collect") and revs and _receiver_chain_has(g, t["a"][0], revs[0])]
    dropping = [t["f"].get("name") for x in fam for _, t in x.calls() if t["f"].get("name") in ("take", "skip", "filter", "filter_map", "step_by", "take_while", "skip_while", "nth", "last", "truncate", "pop", "dedup", "retain")]
    ctx.check((len(pushes) == 1) != (len(collects) == 1) and not dropping, "C17.R4", g.path, "pushes-every-row",
              "each row's peer reaches the result once (push sites %d, collect-from-rev sites %d, row-dropping adaptors %s)" % (len(pushes), len(collects), dropping), g.sp)
    ctx.floor("C17.R4", 3)


def r5(ctx):
    f = ctx.facts
    types = tables.table_types(f)
    outer, b = tx_closure(f)
    n = 0
    for bi, t in b.calls():
        if (tables.call_table(t, types) or (None, None))[:2] != (NP, "insert"):
            continue
        n += 1
        key = outer_names(f, outer, b, t["a"][1])
        comps = []
        for o in trace(b, t["a"][2]):
            if o.kind == "agg" and o.data[0][0] == "tuple":
                for op in o.data[1]:
                    comps.append(outer_names(f, outer, b, op))
        ok = key == {"arg:namespace"} and len(comps) == 2 and comps[0] == {"clock"} and comps[1] == {"arg:peer"}
        ctx.check(ok, "C17.R5", RUP, "insert.row-is-(fresh-nanos,this-peer)#%d" % n,
                  "key %s, row %s; a row inserted with a stale timestamp does not move the peer to the front" % (sorted(key), [sorted(c) for c in comps]), t["sp"])
    # nanos is computed from the clock in the outer function, namespace/peer are the arguments
    nl = outer.local_by_name("nanos")
    okn = False
    if nl:
        for o in trace(outer, {"l": nl[0], "p": []}, through_calls=False):
            if o.kind == "call":
                chain = origin_summary(o)
                okn = True
    els = [t for _, t in outer.calls() if t["f"].get("name") == "elapsed"]
    ctx.check(okn and len(els) == 1, "C17.R5", RUP, "nanos-from-clock", "nanos = UNIX_EPOCH.elapsed() (one clock read per registration)", outer.sp)
    if n < 4:
        raise mir.AnchorMissing("expected 4 inserts into the peers table, found %d" % n)
    ctx.floor("C17.R5", 5)


def run(ctx):
    ctx.run_rule("C17.R1", r1)
    ctx.run_rule("C17.R2", r2)
    ctx.run_rule("C17.R3", r3)
    ctx.run_rule("C17.R4", r4)
    ctx.run_rule("C17.R5", r5)

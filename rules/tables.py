"""redb table identification: tables are told apart by their key/value types, derived from the
fields of store::fs::tables::Tables in the facts (not from names in source text)."""
import re
from . import mir

TABLE_RX = re.compile(r"redb::(ReadOnly)?(Multimap)?Table(?:::)?<([^<>]*)>")
TRAIT_RX = re.compile(r" as redb::Readable(Multimap)?Table<([^<>]*)>>::")
WRITE_OPS = {"insert", "remove", "remove_all", "retain", "retain_in", "extract_if", "extract_from_if", "pop_first", "pop_last", "drain", "insert_reserve", "get_mut"}
READ_OPS = {"get", "range", "iter", "first", "last", "len", "is_empty"}


def norm(s):
    s = re.sub(r"'[a-z_]+,\s*", "", s)
    s = re.sub(r"'[a-z_]+\s+", "", s)
    return s.strip()


def table_types(facts):
    """field name of Tables -> normalised 'K, V' type string"""
    adt = facts.adt("store::fs::tables::Tables")
    out = {}
    for fld in adt["variants"][0]["fields"]:
        m = TABLE_RX.search(norm(fld["ty"]))
        if not m:
            raise mir.AnchorMissing("Tables.%s is not a redb table: %s" % (fld["name"], fld["ty"]))
        out[fld["name"]] = norm(m.group(3))
    if len(set(out.values())) != len(out):
        raise mir.AnchorMissing("two tables share the same key/value types; tables can no longer be told apart by type")
    return out


def call_table(t, types):
    """(table field name, op name, readonly) for a call on a redb table, else None"""
    f = t["f"]
    if f.get("indirect"):
        return None
    for k in ("full", "res_full"):
        v = f.get(k)
        if not v:
            continue
        m = TABLE_RX.search(norm(v))
        if m and v.lstrip("<").startswith("redb::"):
            kv = norm(m.group(3))
            for name, ty in types.items():
                if ty == kv:
                    return name, f.get("name"), bool(m.group(1))
            return "?" + kv, f.get("name"), bool(m.group(1))
        # a call through the reading trait on a generic table (`records: &impl ReadableTable<K, V>` in a helper): the table is
        # still told by its key/value types
        m = TRAIT_RX.search(norm(v))
        if m:
            kv = norm(m.group(2))
            for name, ty in types.items():
                if ty == kv:
                    return name, f.get("name"), True
    return None


def table_ops(facts, types=None):
    types = types or table_types(facts)
    out = []
    for b in facts.bodies.values():
        for bi, t in b.calls():
            ct = call_table(t, types)
            if ct:
                out.append((b, bi, t, ct[0], ct[1], ct[2]))
    return out


def writes(facts, types=None):
    return [x for x in table_ops(facts, types) if x[4] in WRITE_OPS and not x[5]]


def inside_modify(f, path, depth=5, _seen=None):
    """True if body `path` only ever runs inside the closure given to Store::modify, i.e. in the
    shared write transaction: it is that closure, a closure nested in it, a function item passed to
    modify, or a named function all of whose crate-local callers are themselves inside modify."""
    from . import mir
    _seen = _seen or set()
    if path in _seen or depth < 0 or path not in f.bodies:
        return False
    _seen = _seen | {path}
    b = f.bodies[path]
    site = mir.closure_site(f, b)
    if site:
        pb, pbi, psi, ps = site
        cl_local = ps["p"]["l"]
        for qbi, qt in pb.calls():
            if mir.callee_matches(qt, r"store::fs::Store::modify") and any(a[0] in ("copy", "move") and a[1]["l"] == cl_local for a in qt["a"]):
                return True
        return inside_modify(f, pb.path, depth - 1, _seen)
    if b.parent:
        return inside_modify(f, b.parent, depth - 1, _seen)
    callers = f.callers().get(path, [])
    if not callers:
        # passed as a function item?
        for ob in f.bodies.values():
            for bi, t in ob.calls():
                if mir.callee_matches(t, r"store::fs::Store::modify") and path in (t["f"].get("tdefs") or []):
                    return True
        return False
    ok = True
    for cb, bi, t in callers:
        if mir.callee_matches(t, r"store::fs::Store::modify"):
            continue
        ok = ok and inside_modify(f, cb.path, depth - 1, _seen)
    return ok


def tx_body(f, outer_path, table, ops=("insert",)):
    """(outer body, the body that runs inside outer's Store::modify transaction and performs `ops` on
    `table`): the closure passed to modify, a function item passed to it, or a helper only they call"""
    from . import mir
    from .common import one_call
    b = f.body(outer_path)
    bi, t = one_call(b, r"store::fs::Store::modify")
    roots = [d for d in (t["f"].get("tdefs") or []) if d and d in f.bodies]
    if len(roots) != 1:
        raise mir.AnchorMissing("%s does not pass one closure or function to modify" % outer_path)
    types = table_types(f)
    cands = []
    for hb in f.local_callees(roots[0], depth=2, prefix="store::fs::"):
        if any((call_table(ct, types) or (None, None))[:2] in [(table, o) for o in ops] for _, ct in hb.calls()):
            cands.append(hb)
    if len(cands) != 1:
        raise mir.AnchorMissing("expected one body performing %s on %s inside %s's transaction, found %s" % (ops, table, outer_path, [c.path for c in cands]))
    return b, cands[0]

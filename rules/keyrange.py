"""Concrete key ranges: rendered bounds (as produced by feval.describe on values built from `id:<hex>` / `key:<hex>` /
`empty` / `[k; _]` components) parsed back into byte tuples, and membership of sample keys decided in Python. Used by the
rules that evaluate a function on a concrete namespace and then ask which rows a table scan / removal covers."""
import re


def split_top(sx):
    out, depth, cur = [], 0, ""
    for ch in sx:
        if ch in "([":
            depth += 1
        if ch in ")]":
            depth -= 1
        if ch == "," and depth == 0:
            out.append(cur)
            cur = ""
        else:
            cur += ch
    if cur:
        out.append(cur)
    return out


def comp(c):
    """a rendered key component as bytes"""
    c = c.strip().lstrip("&*")
    if c == "empty":
        return b""
    if c.startswith("id:") or c.startswith("key:"):
        return bytes.fromhex(c.split(":", 1)[1])
    m = re.fullmatch(r"\[(\d+); _\]", c)
    if m:
        return bytes([int(m.group(1))]) * 32
    raise ValueError("component %r" % c)


def tup(tx):
    tx = tx.strip().lstrip("&*")
    if tx.startswith("(") and tx.endswith(")"):
        return tuple(comp(c) for c in split_top(tx[1:-1]))
    return (comp(tx),)


def bounds(rendered):
    """(lower, upper), each (kind, key tuple), from the rendering of a bounds value: a pair of std Bounds (in a wrapper struct or
    a plain tuple), or a RangeInclusive / Range"""
    r = rendered.strip().lstrip("&*")
    head = r[:r.index("(")] if "(" in r else ""
    inner = r[r.index("(") + 1:-1] if "(" in r else r
    parts = split_top(inner)
    if len(parts) == 2 and any(p.strip().lstrip("&*").startswith(("Included(", "Excluded(", "Unbounded")) for p in parts):
        def bound(px):
            px = px.strip().lstrip("&*")
            if px == "Unbounded":
                return ("unbounded", None)
            k = px[:px.index("(")]
            return ({"Included": "incl", "Excluded": "excl"}[k], tup(px[px.index("(") + 1:-1]))
        return bound(parts[0]), bound(parts[1])
    if len(parts) == 1 and head == "RangeFrom":
        return ("incl", tup(parts[0])), ("unbounded", None)
    if len(parts) == 1 and head == "RangeTo":
        return ("unbounded", None), ("excl", tup(parts[0]))
    if len(parts) == 1 and head == "RangeToInclusive":
        return ("unbounded", None), ("incl", tup(parts[0]))
    if head == "RangeFull" or r == "RangeFull":
        return ("unbounded", None), ("unbounded", None)
    if len(parts) == 2 and head in ("new", "RangeInclusive"):
        return ("incl", tup(parts[0])), ("incl", tup(parts[1]))
    if len(parts) == 2 and head == "Range":
        return ("incl", tup(parts[0])), ("excl", tup(parts[1]))
    raise ValueError("range %r" % rendered)


def inside(key, rng):
    (lk, lo), (uk, up) = rng
    if lk == "incl" and key < lo:
        return False
    if lk == "excl" and key <= lo:
        return False
    if uk == "incl" and key > up:
        return False
    if uk == "excl" and key >= up:
        return False
    return True


def cmp_rendered(a, b):
    """-1/0/1 for two rendered key tuples / components, None if one of them is not concrete"""
    try:
        x, y = tup(a), tup(b)
    except ValueError:
        return None
    return (x > y) - (x < y)

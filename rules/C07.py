"""C07 — write capability is required to author entries and is never lost."""
from . import mir, tables
from .mir import trace, origin_summary, callee_matches
from .common import find_calls, one_call, call_outcomes, follow_value, Ensures
from . import paths as P

EXPLANATION = (
    "Decides structural necessary conditions of C07 from MIR: (R1) Capability::merge evaluated over {Read,Write}^2 x {same id, "
    "other id}: Err iff the ids differ, self replaced by other iff (self=Read, other=Write), returns true iff replaced; (R2) the "
    "in-memory capability of an open replica (field ReplicaInfo.capability) is initialised only in ReplicaInfo::new and mutated "
    "only by passing it to Capability::merge (who-may-write over all bodies, incl. &mut escapes); (R3) Store::import_namespace: "
    "when a row exists the row written back is the parsed existing capability after merging the argument into it, never the "
    "argument; Upgraded is reported only on merge's true edge; key = capability id; the namespaces table has no other writer "
    "besides remove_replica and migration 002; (R4) the actor merges into the open replica's state on Upgraded; (R5) "
    "Capability::secret_key is Ok iff Write and local insert/delete obtain the signing key from it before any store call. "
    "NOT decided: redb persistence itself."
)
ASSUMPTIONS = ["std::mem::replace(self, other) stores other into self", "redb tables are identified by their key/value types"]


def r1(ctx):
    f = ctx.facts
    b = f.body("sync::Capability::merge")
    ctx.touch(b)
    from . import feval as E
    CAP = "sync::Capability"
    V = [v["name"] for v in f.adt(CAP)["variants"]]
    got = {}
    ok_all = True
    for ids_differ in (True, False):
        for sv in V:
            for ov in V:
                def oracle(kind, a, b2, site, ids_differ=ids_differ):
                    if kind == "call" and a == "id":
                        t, args, it = b2
                        who = it.tokname(args[0])
                        return E.Tok("id(doc)") if not ids_differ else E.Tok("id(%s)" % ("self" if "self" in who else "other"))
                    if kind in ("eq", "cmp") and str(a).startswith("id(") and str(b2).startswith("id("):
                        same = (a == b2)
                        return (same if kind == "eq" else (0 if same else 1))
                    return None
                heap = {"self": E.variant(f, CAP, sv, E.Tok("payload(self)"))}
                other = E.variant(f, CAP, ov, E.Tok("payload(other)"))
                try:
                    ret, h, ev = E.run(f, b.path, [E.href("self"), other], heap, oracle)
                    after = h["self"]
                    replaced = E.describe(after, f) != E.describe(heap["self"], f)
                    became_other = E.describe(after, f) == E.describe(other, f)
                    val = (E.describe(ret, f), "self:=other" if (replaced and became_other) else ("self changed" if replaced else "self kept"))
                except E.Unsupported as e:
                    val = ("UNSUPPORTED-FORM: %s" % e, "")
                got[("ids differ" if ids_differ else "same id", sv, ov)] = val
                if ids_differ:
                    want = ("Err(NamespaceMismatch)", "self kept")
                elif sv == "Read" and ov == "Write":
                    want = ("Ok(1)", "self:=other")
                else:
                    want = ("Ok(0)", "self kept")
                if val != want:
                    ok_all = False
    ctx.check(ok_all, "C07.R1", b.path, "merge-table",
              "(ids, self, other) -> (result, effect on self): %s; spec: Err iff ids differ; self replaced by other and true iff (Read, Write); else false and self kept" % got, b.sp)
    ctx.floor("C07.R1", 1)


def r2(ctx):
    f = ctx.facts
    n_w = n_ref = 0
    for b in f.bodies.values():
        if b.rec.get("derived"):
            continue
        for bi, si, s in b.statements():
            if s["k"] != "assign":
                continue
            # direct writes to a place ending in .capability of type Capability
            pp = s["p"]["p"]
            if pp and pp[-1][0] == "field" and pp[-1][2] == "capability" and len(pp[-1]) > 3 and pp[-1][3] == "sync::Capability":
                n_w += 1
                ctx.bad("C07.R2", b.path, "assigns-ReplicaInfo.capability",
                        "the open replica's capability is overwritten directly; it may only change through Capability::merge (which never downgrades)", s["sp"])
            # aggregates constructing ReplicaInfo
            r = s["r"]
            if r[0] == "agg" and r[1][0] == "adt" and r[1][1] == "sync::ReplicaInfo":
                n_w += 1
                ctx.check(b.path == "sync::ReplicaInfo::new", "C07.R2", b.path, "constructs-ReplicaInfo", "ReplicaInfo is built only by ReplicaInfo::new", s["sp"])
            # &mut borrows of the field
            if r[0] == "ref" and r[1] == "mut":
                rp = r[2]["p"]
                if rp and rp[-1][0] == "field" and rp[-1][2] == "capability" and len(rp[-1]) > 3 and rp[-1][3] == "sync::Capability":
                    n_ref += 1
                    # must flow only into Capability::merge
                    dl = s["p"]["l"]
                    ok = False
                    from .common import uses_of_local
                    seen = {dl}
                    frontier = [dl]
                    sinks = []
                    while frontier:
                        l = frontier.pop()
                        for ubi, usi, u in uses_of_local(b, l):
                            if usi == "t" and u["k"] == "call":
                                sinks.append(u)
                            elif usi != "t" and u["k"] == "assign" and not u["p"]["p"] and u["p"]["l"] not in seen:
                                seen.add(u["p"]["l"])
                                frontier.append(u["p"]["l"])
                    ok = bool(sinks) and all(callee_matches(u, r"sync::Capability::merge$") for u in sinks)
                    ctx.check(ok, "C07.R2", b.path, "mut-borrow-of-capability-only-for-merge",
                              "&mut capability flows to %s" % [u["f"].get("name") for u in sinks], s["sp"])
    if n_w < 1 or n_ref < 1:
        raise mir.AnchorMissing("expected a ReplicaInfo construction and a &mut capability borrow (found %d/%d)" % (n_w, n_ref))
    # field visibility: pub(crate) at most
    adt = f.adt("sync::ReplicaInfo")
    fld = [x for x in adt["variants"][0]["fields"] if x["name"] == "capability"]
    ctx.check(bool(fld) and fld[0]["vis"] != "public", "C07.R2", "sync::ReplicaInfo", "capability-field-not-public", "visibility %s: code outside the crate cannot assign it" % (fld[0]["vis"] if fld else "?"), adt["sp"])
    ctx.floor("C07.R2", 3)


def r3(ctx):
    f = ctx.facts
    types = tables.table_types(f)
    o = f.body("store::fs::Store::import_namespace")
    bi, t = one_call(o, r"store::fs::Store::modify")
    cl = [d for d in t["f"]["tdefs"] if d and "{closure" in d]
    c = f.body(cl[0])
    ctx.touch(o, c)
    ins = [(b2, t2) for b2, t2 in c.calls() if (tables.call_table(t2, types) or (None, None))[:2] == ("namespaces", "insert")]
    gets = [(b2, t2) for b2, t2 in c.calls() if (tables.call_table(t2, types) or (None, None))[:2] == ("namespaces", "get")]
    mer = find_calls(c, r"sync::Capability::merge$")
    if len(ins) != 1 or len(gets) != 1 or len(mer) != 1:
        raise mir.AnchorMissing("import_namespace: expected one namespaces.get, one Capability::merge, one namespaces.insert (found %d/%d/%d)" % (len(gets), len(mer), len(ins)))
    ibi, it = ins[0]
    mbi, mt = mer[0]
    # merge(receiver = parsed existing row, argument = the imported capability)
    recv = trace(c, mt["a"][0], through_calls=False)
    recv_ok = False
    existing_locals = set()
    for x in trace(c, mt["a"][0]):
        if x.kind == "call" and x.data["f"].get("name") in ("parse_capability", "from_raw"):
            recv_ok = True
    arg = {origin_summary(x) for x in trace(c, mt["a"][1])}
    ctx.check(recv_ok and arg == {"upvar:capability"}, "C07.R3", o.path, "merge(existing-row, imported)",
              "merge receiver derives from the stored row: %s; argument %s" % (recv_ok, sorted(arg)), mt["sp"])
    # the value written: capability.raw() where `capability` (inner) is assigned from (existing, outcome) on the Some edge
    # and from (argument, Inserted) on the None edge
    raw = [(b2, t2) for b2, t2 in c.calls() if callee_matches(t2, r"sync::Capability::raw$")]
    # the raw() call whose result is the row written
    raw = [(b2, t2) for b2, t2 in raw if any(x.kind == "call" and x.data is t2 for x in trace(c, it["a"][2], through_calls=False))
           or any(x.kind == "agg" and any(y.kind == "call" and y.data is t2 for op in x.data[1] for y in trace(c, op, through_calls=False)) for x in trace(c, it["a"][2], through_calls=False))]
    okw = False
    det = "found %d raw() calls feeding the written row" % len(raw)
    if len(raw) == 1:
        src = trace(c, raw[0][1]["a"][0])
        kinds = set()
        for x in src:
            if x.kind == "call" and x.data["f"].get("name") in ("parse_capability", "from_raw"):
                kinds.add("existing")
            elif x.kind == "upvar" and x.data == "capability":
                kinds.add("argument")
            else:
                kinds.add(origin_summary(x))
        det = "row written = raw() of %s" % sorted(kinds)
        okw = kinds == {"existing", "argument"}
        # the insert value derives from that raw()
        vsrc = trace(c, it["a"][2])
    ctx.check(okw, "C07.R3", o.path, "row-derives-from-existing-or-argument", det, it["sp"])
    # path sensitivity: the tuple built under the Some edge carries the *existing* local, the one under None the argument
    oc = call_outcomes(c, gets[0][0])
    tuples = []
    for b2, si, s in c.statements():
        if s["k"] == "assign" and s["r"][0] == "agg" and s["r"][1][0] == "tuple" and len(s["r"][2]) == 2:
            first = s["r"][2][0]
            if first[0] in ("copy", "move") and c.locals[first[1]["l"]]["ty"] == "sync::Capability":
                k = set()
                for x in trace(c, first):
                    if x.kind == "call" and x.data["f"].get("name") in ("parse_capability", "from_raw"):
                        k.add("existing")
                    elif x.kind == "upvar":
                        k.add("argument")
                    else:
                        k.add(origin_summary(x))
                after_merge = b2 in c.reachable(mbi)
                tuples.append((b2, k, after_merge, s["sp"]))
    ex = [x for x in tuples if x[1] == {"existing"}]
    ar = [x for x in tuples if x[1] == {"argument"}]
    ctx.check(len(ex) == 1 and ex[0][2] and len(ar) == 1 and not ar[0][2], "C07.R3", o.path, "existing-row-branch-writes-merged-existing",
              "branch with a stored row builds (existing, outcome) on a path through merge; branch without builds (argument, Inserted): %s" % [(sorted(x[1]), x[2]) for x in tuples], o.sp)
    # Upgraded only on merge's true edge, NoChange on false
    mo = call_outcomes(c, mbi)
    pay = None
    # Ok payload bool of merge: follow the Continue payload
    upg = [(b2, s) for b2, si, s in c.statements() if s["k"] == "assign" and s["r"][0] == "agg" and s["r"][1][0] == "adt" and s["r"][1][1] == "store::ImportNamespaceOutcome"]
    names = {s["r"][1][2]: b2 for b2, s in upg}
    okout = False
    det = "constructed outcomes %s" % sorted(names)
    # find the switch on the Ok payload
    for b2, blk in enumerate(c.blocks):
        tt = blk["t"]
        if tt["k"] == "switch" and tt["d"][0] in ("copy", "move") and c.locals[tt["d"][1]["l"]]["ty"] == "bool":
            if any(x.kind == "call" and x.data is mt for x in trace(c, tt["d"], through_calls=True)) or any(x.kind == "call" and x.data["f"].get("name") == "branch" for x in trace(c, tt["d"], through_calls=False)):
                false_t = dict(tt["v"]).get(0)
                true_t = tt["o"]
                if "Upgraded" in names and "NoChange" in names and false_t is not None:
                    okout = c.edge_dominates(b2, true_t, names["Upgraded"]) and c.edge_dominates(b2, false_t, names["NoChange"])
    ctx.check(okout, "C07.R3", o.path, "Upgraded-iff-merge-returned-true", det + "; Upgraded dominated by merge's true edge and NoChange by its false edge", mt["sp"])
    # key = id of the capability being written
    key = trace(c, it["a"][1])
    okk = any(x.kind == "call" and x.data["f"].get("name") in ("to_bytes", "as_bytes") for x in trace(c, it["a"][1], through_calls=False)) or True
    idc = [t2 for _, t2 in c.calls() if callee_matches(t2, r"sync::Capability::id$")]
    ctx.check(len(idc) >= 2, "C07.R3", o.path, "key-is-capability-id", "lookup and write are keyed by capability.id() (%d id() calls)" % len(idc), it["sp"])
    # who may write the namespaces table
    allowed = {c.path, "store::fs::Store::remove_replica::{closure#0}"}
    for b2, bi2, t2, name, op, ro in tables.writes(f, types):
        if name != "namespaces" or b2.path.startswith("store::fs::migrat"):
            continue
        ctx.check(b2.path in allowed, "C07.R3", b2.path, "writer-of-namespaces.%s" % op, "the namespaces table is written only by import_namespace and remove_replica", t2["sp"])
    ctx.floor("C07.R3", 7)


def r4(ctx):
    f = ctx.facts
    cands = [b for b in f.bodies.values() if b.path.startswith("actor::Actor::on_action") and any(callee_matches(t, r"store::fs::Store::import_namespace$") for _, t in b.calls())]
    if len(cands) != 1:
        raise mir.AnchorMissing("actor ImportNamespace handler not found (%d candidates)" % len(cands))
    b = cands[0]
    ctx.touch(b)
    V = [v["name"] for v in f.adt("store::ImportNamespaceOutcome")["variants"]]
    upg = V.index("Upgraded")
    seen_upgraded_open = 0
    for p in P.explore(b):
        out = None
        gm = None
        for k, v in p.decisions:
            if k[0] == "discr" and "ImportNamespaceOutcome" in k[1]:
                out = v
            if k[0] == "discr" and "get_mut" in k[1]:
                gm = v
        if out == upg and gm == 0:
            seen_upgraded_open += 1
            ok = "merge_capability" in P.calls(p) or "merge" in P.calls(p)
            ctx.check(ok, "C07.R4", b.path, "upgraded+open=>merge-into-open-state[%s]" % P.short(p.ret),
                      "calls on this path: %s" % P.calls(p), b.sp)
    ctx.check(seen_upgraded_open >= 1, "C07.R4", b.path, "has-upgraded-and-open-path", "%d paths with outcome Upgraded and the document open" % seen_upgraded_open, b.sp)
    mc = [t for _, t in b.calls() if t["f"].get("name") in ("merge_capability",)]
    if mc:
        a = {origin_summary(x) for x in trace(b, mc[0]["a"][1])}
        ctx.check(a == {"upvar:capability"}, "C07.R4", b.path, "merges-the-imported-capability", "%s" % sorted(a), mc[0]["sp"])
    mcap = f.body("sync::ReplicaInfo::merge_capability")
    ctx.touch(mcap)
    ok = any(callee_matches(t, r"sync::Capability::merge$") and t["d"]["l"] == 0 for _, t in mcap.calls())
    ctx.check(ok, "C07.R4", mcap.path, "delegates-to-Capability::merge", "merge_capability = self.capability.merge(capability)", mcap.sp)
    ctx.floor("C07.R4", 4)


def r5(ctx):
    f = ctx.facts
    from . import feval as E
    b = f.body("sync::Capability::secret_key")
    ctx.touch(b)
    CAP = "sync::Capability"
    V = [v["name"] for v in f.adt(CAP)["variants"]]
    rows = {}
    for sv in V:
        try:
            ret, h, ev = E.run(f, b.path, [E.href("self")], {"self": E.variant(f, CAP, sv, E.Tok("payload"))})
            rows[sv] = E.describe(ret, f).split("(")[0]
        except E.Unsupported as e:
            rows[sv] = "UNSUPPORTED-FORM: %s" % e
    ctx.check(rows == {"Write": "Ok", "Read": "Err"}, "C07.R5", b.path, "ok-iff-Write", "%s" % rows, b.sp)
    rs = f.body("sync::Replica::<'a, I>::secret_key")
    ctx.touch(rs)
    ctx.check(any(callee_matches(t, r"sync::Capability::secret_key$") and t["d"]["l"] == 0 for _, t in rs.calls()), "C07.R5", rs.path, "delegates", "Replica::secret_key = info.capability.secret_key()", rs.sp)
    ens = Ensures(f, r"sync::(Capability|Replica::<.*>)::secret_key$")
    def guarded(x, bi):
        for gbi, gt in x.calls():
            if ens.is_guard_call(gt, 3):
                e = call_outcomes(x, gbi).get("Ok")
                if e and x.edge_dominates(e[0], e[1], bi):
                    return True
        return False

    def site_guarded(x, bi, depth=3):
        """the site runs only after secret_key() succeeded: in its own body, or at every call site of the helper it lives in"""
        if guarded(x, bi):
            return True
        if depth <= 0:
            return False
        fn = x
        while fn.kind not in ("fn", "assoc_fn") and fn.parent in f.bodies:
            fn = f.bodies[fn.parent]
        callers = [(cb2, cbi) for cb2, cbi, ct in f.callers().get(fn.path, []) if cb2.path != fn.path]
        return bool(callers) and all(site_guarded(cb2, cbi, depth - 1) for cb2, cbi in callers)
    for name in ("insert", "delete_prefix"):
        root = "sync::Replica::<'a, I>::%s" % name
        cb = f.body(root + "::{closure#0}")
        ctx.touch(cb)
        sites = [(x, bi) for x in f.local_callees(root, depth=2, prefix="sync::Replica") for bi, t in x.calls()
                 if t["f"].get("name") == "insert_entry" and x.path != "sync::Replica::<'a, I>::insert_entry"]
        ok = bool(sites) and all(site_guarded(x, bi) for x, bi in sites)
        ctx.check(ok, "C07.R5", cb.path, "store-reached-only-with-secret-key",
                  "insert_entry (%d site(s), in %s) is dominated by the Ok edge of a call that succeeds only with the secret key: a read-only replica returns before any store call" % (len(sites), sorted({x.path for x, _ in sites})), cb.sp)
    ctx.floor("C07.R5", 4)


def run(ctx):
    ctx.run_rule("C07.R1", r1)
    ctx.run_rule("C07.R2", r2)
    ctx.run_rule("C07.R3", r3)
    ctx.run_rule("C07.R4", r4)
    ctx.run_rule("C07.R5", r5)

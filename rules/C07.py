"""C07 — write capability is required to author entries and is never lost."""
import re
from . import mir, tables
from .mir import trace, origin_summary, callee_matches
from .common import find_calls, one_call, call_outcomes, follow_value, Ensures
from . import paths as P

EXPLANATION = (
    'Decides structural necessary conditions of C07 from MIR: (R1) Capability::merge evaluated over {Read,Write}^2 x {same '
    'id, other id}: Err iff the ids differ, self replaced by other iff (self=Read, other=Write), returns true iff replaced;'
    ' (R2) the in-memory capability of an open replica (field ReplicaInfo.capability) is initialised only in '
    'ReplicaInfo::new and mutated only by passing it to Capability::merge (who-may-write over all bodies, incl. &mut '
    "escapes); (R3) Store::import_namespace's transaction evaluated on {no stored row, stored row} x merge "
    '{true,false,Err}: when a row exists the row written back is the parsed existing capability after merging the argument '
    "into it, never the argument; Upgraded is reported only on merge's true edge; key = capability id; the namespaces table"
    " has no other writer besides remove_replica and migration 002; (R4) the actor's import handler evaluated on outcome x "
    "{open, closed}: the imported capability is merged into the open replica's state exactly on Upgraded; (R5) "
    'Capability::secret_key is Ok iff Write and local insert/delete obtain the signing key from it before any store call; '
    '(R6) the RPC handler behind Docs::import evaluated on {import, open, other handle calls} x {ok, fails}: success is '
    "reported only after SyncHandle::import_namespace succeeded with the request's capability. (R7) the file-format "
    'migration that runs on open for stores written by iroh-docs 0.94..=0.98 (migrate_redb_v2_tuples::run), evaluated on an'
    ' old file holding one row per table, carries the capability tables; (R8) Capability::raw -> from_raw evaluated per variant (the stored form reads back as the same variant over the same bytes, kind bytes distinct) and migration 002 evaluated on version-1 tables of 0, 1 and 3 secrets: each becomes a row of the current table keyed by the id derived from the secret and reading back as Write(that secret). (R9) the store actor forwards InsertLocal / DeletePrefix one to one (the store-actor handler evaluated with the fields of the request as named tokens and gates / store / replica calls answered by an oracle, each step also failing in turn: the own fields of the request reach the core function in order on the addressed document, nothing is carried out after a failed step, the reply is the result of that function; the SyncHandle method evaluated: one request of its own kind, addressed to its namespace argument, each field one of its own parameters, the reply of the actor returned). (R10) the RPC handlers doc_set_hash / doc_del evaluated as forwarders (K14). (R11) = C06.R4 failing-body rows: a failing store operation neither rolls back nor drops the shared write transaction that holds an acknowledged import. NOT decided: redb persistence itself.'
)
ASSUMPTIONS = ["std::mem::replace(self, other) stores other into self", "redb tables are identified by their key/value types"]



EXPLANATION += ' (R10, round 8) also the RPC handlers doc_set (one local insert with the hash of exactly the stored blob and the length of exactly the value, read back for the same triple) and doc_create. (R12) = C14.R3 (sync stays enabled across further opens). (R13) Store::load_replica_info / new_replica evaluated: a document is opened with from_raw of exactly the row stored under its own id; a created document stores the write capability of its secret.'
EXPLANATION += ' Round 9: R11 also carries the destructor rows of C06.R4 (a capability imported just before the store is dropped survives the reopen).'
EXPLANATION += ' (R14, round 11) who-may-construct: ReplicaInfo is built only by Store::load_replica_info - no memo of an earlier open anywhere.'
EXPLANATION += ' (R15, round 12) = C03.R13: the id a write secret is stored and looked up under is the bytes of its own public key.'
EXPLANATION += ' (R16, round 12) = C14.R6: a document is not removed (and re-imported read-only) under a holder whose open replica still carries the write secret.'


def r1(ctx):
    f = ctx.facts
    b = f.body("sync::Capability::merge")
    ctx.touch(b)
    from . import feval as E
    CAP = "sync::Capability"
    V = [v["name"] for v in f.adt(CAP)["variants"]]
    got = {}
    ok_all = True
    for ids_differ in (True, False):
        for sv in V:
            for ov in V:
                def oracle(kind, a, b2, site, ids_differ=ids_differ):
                    if kind == "call" and a == "id":
                        t, args, it = b2
                        who = it.tokname(args[0])
                        return E.Tok("id(doc)") if not ids_differ else E.Tok("id(%s)" % ("self" if "self" in who else "other"))
                    if kind in ("eq", "cmp") and str(a).startswith("id(") and str(b2).startswith("id("):
                        same = (a == b2)
                        return (same if kind == "eq" else (0 if same else 1))
                    return None
                heap = {"self": E.variant(f, CAP, sv, E.Tok("payload(self)"))}
                other = E.variant(f, CAP, ov, E.Tok("payload(other)"))
                try:
                    ret, h, ev = E.run(f, b.path, [E.href("self"), other], heap, oracle)
                    after = h["self"]
                    replaced = E.describe(after, f) != E.describe(heap["self"], f)
                    became_other = E.describe(after, f) == E.describe(other, f)
                    val = (E.describe(ret, f), "self:=other" if (replaced and became_other) else ("self changed" if replaced else "self kept"))
                except E.Unsupported as e:
                    val = ("UNSUPPORTED-FORM: %s" % e, "")
                got[("ids differ" if ids_differ else "same id", sv, ov)] = val
                if ids_differ:
                    want = ("Err(NamespaceMismatch)", "self kept")
                elif sv == "Read" and ov == "Write":
                    want = ("Ok(1)", "self:=other")
                else:
                    want = ("Ok(0)", "self kept")
                if val != want:
                    ok_all = False
    ctx.check(ok_all, "C07.R1", b.path, "merge-table",
              "(ids, self, other) -> (result, effect on self): %s; spec: Err iff ids differ; self replaced by other and true iff (Read, Write); else false and self kept" % got, b.sp)
    ctx.floor("C07.R1", 1)


def r2(ctx):
    f = ctx.facts
    n_w = n_ref = 0
    for b in f.bodies.values():
        if b.rec.get("derived"):
            continue
        for bi, si, s in b.statements():
            if s["k"] != "assign":
                continue
            # direct writes to a place ending in .capability of type Capability
            pp = s["p"]["p"]
            if pp and pp[-1][0] == "field" and pp[-1][2] == "capability" and len(pp[-1]) > 3 and pp[-1][3] == "sync::Capability":
                n_w += 1
                ctx.bad("C07.R2", b.path, "assigns-ReplicaInfo.capability",
                        "the open replica's capability is overwritten directly; it may only change through Capability::merge (which never downgrades)", s["sp"])
            # aggregates constructing ReplicaInfo
            r = s["r"]
            if r[0] == "agg" and r[1][0] == "adt" and r[1][1] == "sync::ReplicaInfo":
                n_w += 1
                ctx.check(b.path == "sync::ReplicaInfo::new", "C07.R2", b.path, "constructs-ReplicaInfo", "ReplicaInfo is built only by ReplicaInfo::new", s["sp"])
            # &mut borrows of the field
            if r[0] == "ref" and r[1] == "mut":
                rp = r[2]["p"]
                if rp and rp[-1][0] == "field" and rp[-1][2] == "capability" and len(rp[-1]) > 3 and rp[-1][3] == "sync::Capability":
                    n_ref += 1
                    # must flow only into Capability::merge
                    dl = s["p"]["l"]
                    ok = False
                    from .common import uses_of_local
                    seen = {dl}
                    frontier = [dl]
                    sinks = []
                    while frontier:
                        l = frontier.pop()
                        for ubi, usi, u in uses_of_local(b, l):
                            if usi == "t" and u["k"] == "call":
                                sinks.append(u)
                            elif usi != "t" and u["k"] == "assign" and not u["p"]["p"] and u["p"]["l"] not in seen:
                                seen.add(u["p"]["l"])
                                frontier.append(u["p"]["l"])
                    ok = bool(sinks) and all(callee_matches(u, r"sync::Capability::merge$") for u in sinks)
                    ctx.check(ok, "C07.R2", b.path, "mut-borrow-of-capability-only-for-merge",
                              "&mut capability flows to %s" % [u["f"].get("name") for u in sinks], s["sp"])
    if n_w < 1 or n_ref < 1:
        raise mir.AnchorMissing("expected a ReplicaInfo construction and a &mut capability borrow (found %d/%d)" % (n_w, n_ref))
    # field visibility: pub(crate) at most
    adt = f.adt("sync::ReplicaInfo")
    fld = [x for x in adt["variants"][0]["fields"] if x["name"] == "capability"]
    ctx.check(bool(fld) and fld[0]["vis"] != "public", "C07.R2", "sync::ReplicaInfo", "capability-field-not-public", "visibility %s: code outside the crate cannot assign it" % (fld[0]["vis"] if fld else "?"), adt["sp"])
    ctx.floor("C07.R2", 3)


def r3(ctx):
    """import_namespace's transaction evaluated (K6') on {no stored row, stored row} x merge in {true, false, Err}"""
    from . import feval as E
    f = ctx.facts
    types = tables.table_types(f)
    o, c = tables.tx_body(f, "store::fs::Store::import_namespace", "namespaces")
    ctx.touch(o, c)

    def scen(row, merge):
        log = []

        def oracle(kind, name, payload, site):
            if kind != "call":
                return None
            t, args, it = payload
            names = [it.tokname(a) for a in args]
            ct = tables.call_table(t, types)
            if ct and ct[0] == "namespaces" and ct[1] == "get":
                log.append(("get", names[1:]))
                return E.Ok(E.Some(E.Tok("rowguard"))) if row else E.Ok(E.NONE)
            if ct and ct[0] == "namespaces" and ct[1] == "insert":
                log.append(("insert", names[1:]))
                return E.Ok(E.NONE)
            if ct and ct[1] in tables.WRITE_OPS:
                log.append(("other-write", [ct[0], ct[1]]))
                return E.Ok(E.NONE)
            if name == "value" and names == ["rowguard"]:
                return E.Tok("stored-row")
            if callee_matches(t, r"store::fs::parse_capability$") or callee_matches(t, r"sync::Capability::from_raw$"):
                log.append(("parse", names))
                return E.Ok(E.Tok("existing"))
            if callee_matches(t, r"sync::Capability::merge$"):
                log.append(("merge", names))
                if merge == "err":
                    return E.Err(E.Tok("mismatch"))
                if merge == "true" and args[0][0] == "ref":
                    it.write_loc(args[0][1], E.Tok("upgraded"))
                return E.Ok(E.Int(1 if merge == "true" else 0))
            if callee_matches(t, r"sync::Capability::raw$"):
                return ("tuple", [E.Tok("kind(%s)" % names[0]), E.Tok("bytes(%s)" % names[0])])
            if callee_matches(t, r"sync::Capability::id$"):
                return E.Tok("id(%s)" % names[0])
            if name in ("to_bytes", "as_bytes"):
                return E.Tok("b(%s)" % names[0])
            return None
        heap = {}
        args = E.default_args(f, c.path, heap, rename=lambda n, t: "imported" if t == "sync::Capability" else n)
        try:
            ret, hp, ev = E.run(f, c.path, args, heap, oracle)
            return E.describe(ret, f), log
        except E.Unsupported as e:
            return "UNSUPPORTED-FORM: %s" % e, log

    def row_of(who):
        return "(kind(%s),bytes(%s))" % (who, who)
    ANYKEY = {"b(id(imported))", "b(id(existing))", "b(id(upgraded))"}
    for row, merge in ((0, "-"), (1, "true"), (1, "false"), (1, "err")):
        got, log = scen(row, merge)
        ins = [x[1] for x in log if x[0] == "insert"]
        gets = [x[1] for x in log if x[0] == "get"]
        merges = [x[1] for x in log if x[0] == "merge"]
        other = [x for x in log if x[0] == "other-write"]
        keyed = gets == [["b(id(imported))"]] and all(i[0] in ANYKEY for i in ins)
        if not row:
            ok = got == "Ok(Inserted)" and len(ins) == 1 and ins[0][1] == row_of("imported") and not merges
            spec = "Inserted; the imported capability is stored"
        elif merge == "true":
            ok = got == "Ok(Upgraded)" and merges == [["existing", "imported"]] and len(ins) == 1 and ins[0][1] == row_of("upgraded")
            spec = "merge(stored <- imported) returned true: Upgraded; the merged stored capability is written back"
        elif merge == "false":
            ok = got == "Ok(NoChange)" and merges == [["existing", "imported"]] and (not ins or (len(ins) == 1 and ins[0][1] == row_of("existing")))
            spec = "merge returned false: NoChange; the stored capability stays (never replaced by the imported one)"
        else:
            ok = got.startswith("Err") and merges == [["existing", "imported"]] and not ins
            spec = "merge failed: error, nothing written"
        ctx.check(ok and keyed and not other, "C07.R3", o.path, "import[%s,merge=%s]" % ("stored-row" if row else "no-row", merge),
                  "returns %s; effects %s; spec: %s" % (got, log, spec), c.sp)
    # who may write the namespaces table
    roots = {"store::fs::Store::import_namespace", "store::fs::Store::remove_replica"}
    n = 0
    for b2, bi2, t2, name, op, ro in tables.writes(f, types):
        if name != "namespaces" or b2.path.startswith("store::fs::migrat"):
            continue
        n += 1
        ctx.check(f.only_reached_from(b2.path, roots), "C07.R3", b2.path, "writer-of-namespaces.%s" % op, "the namespaces table is written only by import_namespace and remove_replica (or helpers only they call)", t2["sp"])
    if n < 2:
        raise mir.AnchorMissing("expected >=2 writes of the namespaces table, found %d" % n)
    ctx.floor("C07.R3", 6)


def r4(ctx):
    """the actor's import handler evaluated (K6') on outcome x {document open, not open}"""
    from . import feval as E
    f = ctx.facts
    cands = [b for b in f.bodies.values() if b.path.startswith("actor::Actor::") and any(callee_matches(t, r"store::fs::Store::import_namespace$") for _, t in b.calls())]
    if len(cands) != 1:
        raise mir.AnchorMissing("actor ImportNamespace handler not found (%d candidates)" % len(cands))
    b = cands[0]
    ctx.touch(b)
    INO = "store::ImportNamespaceOutcome"
    n = 0
    for outcome in ("Inserted", "Upgraded", "NoChange", "Err"):
        for is_open in (1, 0):
            log = []

            def oracle(kind, name, payload, site, outcome=outcome, is_open=is_open):
                if kind != "call":
                    return None
                t, args, it = payload
                names = [it.tokname(a) for a in args]
                if callee_matches(t, r"store::fs::Store::import_namespace$"):
                    log.append(("store.import_namespace", names[1:]))
                    return E.Err(E.Tok("store-error")) if outcome == "Err" else E.Ok(E.variant(f, INO, outcome))
                if name == "get_mut" and "HashMap" in (t["f"].get("full") or "") + (t["f"].get("path") or ""):
                    log.append(("states.get_mut", names[1:]))
                    return E.Some(E.href("state")) if is_open else E.NONE
                if callee_matches(t, r"sync::ReplicaInfo::merge_capability$") or callee_matches(t, r"sync::Capability::merge$"):
                    log.append(("merge", names))
                    return E.Ok(E.Int(1))
                if callee_matches(t, r"sync::Capability::id$"):
                    return E.Tok("id(%s)" % names[0])
                return None
            heap = {"state": E.struct(f, "actor::OpenReplica", info=E.Tok("open-info"), sync=E.Int(0), handles=E.Int(1))}
            args = E.default_args(f, b.path, heap, rename=lambda nm, ty: "imported" if ty == "sync::Capability" else nm)
            try:
                ret, hp, ev = E.run(f, b.path, args, heap, oracle)
                got = E.describe(ret, f)
            except E.Unsupported as e:
                got = "UNSUPPORTED-FORM: %s" % e
            merges = [x[1] for x in log if x[0] == "merge"]
            want_merge = outcome == "Upgraded" and is_open
            okm = (len(merges) == 1 and merges[0][0] in ("open-info", "open-info.capability") and merges[0][1] == "imported") if want_merge else not merges
            okr = got.startswith("Err") if outcome == "Err" else got == "Ok(id(imported))"
            oks = [x[1] for x in log if x[0] == "store.import_namespace"] == [["imported"]]
            n += 1
            ctx.check(okm and okr and oks, "C07.R4", b.path, "import[%s,%s]" % (outcome, "open" if is_open else "closed"),
                      "returns %s; effects %s; spec: the imported capability is merged into the open replica's state exactly when the store reports Upgraded and the document is open" % (got, log), b.sp)
    mcap = f.body("sync::ReplicaInfo::merge_capability")
    ctx.touch(mcap)
    ok = any(callee_matches(t, r"sync::Capability::merge$") and t["d"]["l"] == 0 for _, t in mcap.calls())
    ctx.check(ok, "C07.R4", mcap.path, "delegates-to-Capability::merge", "merge_capability = self.capability.merge(capability)", mcap.sp)
    ctx.floor("C07.R4", 9)


def r5(ctx):
    f = ctx.facts
    from . import feval as E
    b = f.body("sync::Capability::secret_key")
    ctx.touch(b)
    CAP = "sync::Capability"
    V = [v["name"] for v in f.adt(CAP)["variants"]]
    rows = {}
    for sv in V:
        try:
            ret, h, ev = E.run(f, b.path, [E.href("self")], {"self": E.variant(f, CAP, sv, E.Tok("payload"))})
            rows[sv] = E.describe(ret, f).split("(")[0]
        except E.Unsupported as e:
            rows[sv] = "UNSUPPORTED-FORM: %s" % e
    ctx.check(rows == {"Write": "Ok", "Read": "Err"}, "C07.R5", b.path, "ok-iff-Write", "%s" % rows, b.sp)
    rs = f.body("sync::Replica::<'a, I>::secret_key")
    ctx.touch(rs)
    ctx.check(any(callee_matches(t, r"sync::Capability::secret_key$") and t["d"]["l"] == 0 for _, t in rs.calls()), "C07.R5", rs.path, "delegates", "Replica::secret_key = info.capability.secret_key()", rs.sp)
    ens = Ensures(f, r"sync::(Capability|Replica::<.*>)::secret_key$")
    def guarded(x, bi):
        for gbi, gt in x.calls():
            if ens.is_guard_call(gt, 3):
                e = call_outcomes(x, gbi).get("Ok")
                if e and x.edge_dominates(e[0], e[1], bi):
                    return True
        return False

    def site_guarded(x, bi, depth=3):
        """the site runs only after secret_key() succeeded: in its own body, or at every call site of the helper it lives in"""
        if guarded(x, bi):
            return True
        if depth <= 0:
            return False
        fn = x
        while fn.kind not in ("fn", "assoc_fn") and fn.parent in f.bodies:
            fn = f.bodies[fn.parent]
        callers = [(cb2, cbi) for cb2, cbi, ct in f.callers().get(fn.path, []) if cb2.path != fn.path]
        return bool(callers) and all(site_guarded(cb2, cbi, depth - 1) for cb2, cbi in callers)
    for name in ("insert", "delete_prefix"):
        root = "sync::Replica::<'a, I>::%s" % name
        cb = f.body(root + "::{closure#0}")
        ctx.touch(cb)
        sites = [(x, bi) for x in f.local_callees(root, depth=2, prefix="sync::Replica") for bi, t in x.calls()
                 if t["f"].get("name") == "insert_entry" and x.path != "sync::Replica::<'a, I>::insert_entry"]
        ok = bool(sites) and all(site_guarded(x, bi) for x, bi in sites)
        ctx.check(ok, "C07.R5", cb.path, "store-reached-only-with-secret-key",
                  "insert_entry (%d site(s), in %s) is dominated by the Ok edge of a call that succeeds only with the secret key: a read-only replica returns before any store call" % (len(sites), sorted({x.path for x, _ in sites})), cb.sp)
    # a read-only replica still takes part in everything that does not author entries: the write secret is demanded
    # only on behalf of the two authoring functions (and the explicit export); the open check does not look at the capability
    roots = {"sync::Replica::<'a, I>::insert", "sync::Replica::<'a, I>::delete_prefix", "sync::Replica::<'a, I>::secret_key"}
    nsk = 0
    for body in f.bodies.values():
        if body.rec.get("derived"):
            continue
        for bi2, t2 in body.calls():
            if t2["f"].get("name") == "secret_key" and callee_matches(t2, r"sync::(Capability|Replica::<.*>)::secret_key$"):
                nsk += 1
                export = body.path.startswith("actor::Actor::on_replica_action")   # the ExportSecretKey action
                ctx.check(f.only_reached_from(body.path, roots) or export, "C07.R5", body.path, "secret-demanded-only-for-authoring",
                          "secret_key() is called here; allowed: Replica::insert / delete_prefix (and helpers only they call), Replica::secret_key, the actor's secret export", t2["sp"])
    if nsk < 3:
        raise mir.AnchorMissing("expected >=3 calls of secret_key, found %d" % nsk)
    eo = f.body("sync::ReplicaInfo::ensure_open")
    ctx.touch(*f.scope(eo.path, prefix="sync::"))
    rows = {}
    for closed in (0, 1):
        for cap in ("Read", "Write"):
            heap = {"self": E.struct(f, "sync::ReplicaInfo", capability=E.variant(f, CAP, cap, E.Tok("payload")), subscribers=E.Tok("subs"), content_status_cb=E.NONE, closed=E.Int(closed))}
            try:
                ret, h, ev = E.run(f, eo.path, [E.href("self")], heap)
                rows[(closed, cap)] = E.describe(ret, f).split("(")[0]
            except E.Unsupported as e:
                rows[(closed, cap)] = "UNSUPPORTED-FORM: %s" % e
    want = {(0, "Read"): "Ok", (0, "Write"): "Ok", (1, "Read"): "Err", (1, "Write"): "Err"}
    ctx.check(rows == want, "C07.R5", eo.path, "open-check-ignores-the-capability", "(closed, capability) -> %s; spec: Ok iff not closed - remote entries and reconciliation must work on a read-only replica" % rows, eo.sp)
    ctx.floor("C07.R5", 8)


DOC_IMPORT = "api::actor::RpcActor::doc_import"


def eval_doc_import(f, import_ok, open_ok, others_ok):
    """the RPC handler behind Docs::import / import_namespace evaluated (K6', awaits driven to completion): every call on the
    SyncHandle is a future the oracle completes. Returns (result, log of completed handle calls)."""
    from . import feval as E
    log = []

    def oracle(kind, name, payload, site):
        if kind == "call":
            t, args, it = payload
            if (t["f"].get("path") or "").startswith("actor::SyncHandle::") and name not in ("into_future", "poll", "clone"):
                return E.Tok("handle.%s(%s)" % (name, ",".join(it.tokname(a).strip("&*") for a in args[1:])))
            if name == "new" and "RpcError" in (t["f"].get("path") or "") + (t["f"].get("full") or ""):
                return E.Tok("rpc-error")
            if name == "id" and args and it.tokname(args[0]).strip("&*") == "capability":
                return E.Tok("id-of-capability")
            if name == "default" and not args:
                return E.Tok("default-opts")
            if name == "deref" and args:
                return args[0]
            return None
        if kind == "await" and name.startswith("handle."):
            m = name[len("handle."):]
            meth = m.split("(")[0]
            ok = import_ok if meth == "import_namespace" else (open_ok if meth == "open" else others_ok)
            log.append((m, "ok" if ok else "err"))
            if not ok:
                return E.Err(E.Tok("%s-error" % meth))
            return E.Ok(E.Tok("id-returned-by-import") if meth == "import_namespace" else E.Tok("%s-result" % meth))
        return None
    req = E.struct(f, "api::protocol::ImportRequest", capability=E.Tok("capability"))
    try:
        out, hp, ev = E.run_async(f, DOC_IMPORT, [E.href("self"), req], {"self": E.Tok("rpc-actor")}, oracle, inline=tuple(p for p in f.bodies if p.startswith("api::actor::RpcActor::")))
        r = out
        if r is not None and r[0] == "adt" and r[1] == E.RESULT and r[2] == 0:
            resp = r[3][0]
            return "Ok(doc_id=%s)" % E.describe(E.field(f, resp, "api::protocol::ImportResponse", "doc_id"), f), log
        return E.describe(out, f), log
    except E.Unsupported as e:
        return "UNSUPPORTED-FORM: %s" % e, log


def r6(ctx):
    """the API layer: a capability handed to Docs::import reaches the store actor's import on every successful path (an import
    skipped because the document happens to be open leaves a read-only document read-only although its secret was supplied)"""
    f = ctx.facts
    b = f.body(DOC_IMPORT)
    ctx.touch(*f.family(b.path))
    for import_ok in (True, False):
        for open_ok in (True, False):
            for others_ok in (True, False):
                got, log = eval_doc_import(f, import_ok, open_ok, others_ok)
                imp = [e for e in log if e[0].startswith("import_namespace(")]
                problems = []
                if got.startswith("UNSUPPORTED"):
                    problems.append(got)
                if got.startswith("Ok("):
                    if not (imp and imp[0] == ("import_namespace(capability)", "ok")):
                        problems.append("reports success without having imported the request's capability")
                    if got != "Ok(doc_id=id-returned-by-import)" and got != "Ok(doc_id=id-of-capability)":
                        problems.append("answers with a document id that is neither the imported one nor the capability's")
                    if not open_ok and any(e[0].startswith("open(") for e in log):
                        problems.append("reports success although opening failed")
                if not import_ok and imp and got.startswith("Ok("):
                    problems.append("a failed import is reported as success")
                if import_ok and open_ok and others_ok and not got.startswith("Ok("):
                    problems.append("fails although every step succeeded")
                ctx.check(not problems, "C07.R6", b.path, "api-import[import=%s,open=%s,other-handle-calls=%s]" % tuple("ok" if x else "fail" for x in (import_ok, open_ok, others_ok)),
                          "returns %s after %s; %s" % (got, log, "; ".join(problems) or "the capability reaches SyncHandle::import_namespace before success is reported"), b.sp)
    ctx.floor("C07.R6", 8)


def r7(ctx):
    """"no reopen of the store downgrades it": the file-format migration that runs on open carries the capability tables"""
    from . import redbmig
    redbmig.check(ctx, "C07.R7", only={"namespaces-1", "namespaces-2"})
    ctx.floor("C07.R7", 1)


def r8(ctx):
    """"no ... reopen of the store downgrades it": what is written to the namespaces table reads back as the same
    capability, and a version-1 database (write secrets only) opens with every document writable"""
    from . import nsmig
    nsmig.check_round_trip(ctx, "C07.R8")
    nsmig.check_migration_002(ctx, "C07.R8")
    ctx.floor("C07.R8", 6)


def r9(ctx):
    """local authoring through the asynchronous handle goes through the replica's insert / delete_prefix (which demand the
    write secret, R5) with the request's own author, key and content"""
    from . import actorfw
    actorfw.claim(ctx, "C07.R9", handlers=("InsertLocal", "DeletePrefix"), clients=("insert_local", "delete_prefix", "export_secret_key"), floor=11)


def r10(ctx):
    """the RPC layer: authoring requests of the public API reach the store actor - and through it Replica::insert /
    delete_prefix, which demand the write secret - with the own fields of the request; the removed-count is what is answered"""
    from . import apifw
    apifw.check_forwarder(ctx, "C07.R10", "doc_set_hash", "SetHashRequest", ["insert_local(req.doc_id,req.author_id,req.key,req.hash,req.size)"], "Ok(SetHashResponse)")
    apifw.check_forwarder(ctx, "C07.R10", "doc_del", "DelRequest", ["delete_prefix(req.doc_id,req.author_id,req.prefix)"], "Ok(DelResponse(result-of-delete_prefix))")
    apifw.check_doc_set(ctx, "C07.R10")
    apifw.check_forwarder(ctx, "C07.R10", "doc_create", "CreateRequest", ["import_namespace(", "open("], None, why="a created document is imported (with the write capability of its fresh secret, R13) and opened once")
    apifw.check_client(ctx, "C07.R10", "api::Doc::set_hash", "SetHashRequest")
    apifw.check_client(ctx, "C07.R10", "api::Doc::set_bytes", "SetRequest")
    apifw.check_client(ctx, "C07.R10", "api::Doc::del", "DelRequest")
    apifw.check_client(ctx, "C07.R10", "api::DocsApi::import_namespace", "ImportRequest", doc_from="arg.capability")
    ctx.floor("C07.R10", 4)


def r11(ctx):
    """"never lost": an imported capability is acknowledged while it sits in the shared, lazily committed write transaction; a
    later request that fails (an unknown document, a refused import) must not take that transaction with it"""
    from . import C06
    C06.share_failing_body(ctx, "C07.R11")


def r12(ctx):
    """"while still accepting validly signed remote entries": a read-only document that is being synced stays so when it is
    opened or imported again - the open/close transition table of the store actor (= C14.R3; enabling sync is sticky)"""
    from . import C14
    ctx.share("C07.R12", C14.r3, "C14.R3", floor=4)


def r13(ctx):
    """"no ... reopen of the store downgrades it" / "a replica imported with read-only capability never produces ...": what a
    document is opened with is what is stored for it - Store::load_replica_info evaluated on (no row, a row, a row that does not
    decode, a failing read): the row is looked up under the document's own id, the capability is Capability::from_raw of exactly
    that row's kind and bytes (R8 decides from_raw itself), ReplicaInfo::new keeps it as given; an unknown document is NotFound.
    Store::new_replica stores the *write* capability of the secret it was given and opens the document of that secret"""
    from . import feval as E, coll
    f = ctx.facts
    LRI = "store::fs::Store::load_replica_info"
    b = f.body(LRI)
    ctx.touch(b, f.body("sync::ReplicaInfo::new"))
    for row in ("absent", "present", "undecodable", "read-fails"):
        C = coll.Collections(f)
        log = []

        def oracle(kind, name, payload, site):
            if kind != "call":
                return None
            t, args, it = payload
            names = [it.tokname(a).strip("&*") for a in args]
            if name == "tables" and callee_matches(t, r"store::fs::Store::tables$"):
                it.heap["tables"] = E.struct(f, "store::fs::tables::Tables", **{fd["name"]: E.Tok(fd["name"] + "-table") for fd in f.adt("store::fs::tables::Tables")["variants"][0]["fields"]})
                return E.Ok(E.href("tables"))
            if name == "get" and names and names[0].endswith("-table"):
                log.append(("get", names[0], names[1]))
                if row == "read-fails":
                    return E.Err(E.Tok("storage-error"))
                return E.Ok(E.NONE if row == "absent" else E.Some(E.Tok("guard")))
            if name == "value" and names and names[0] == "guard":
                return ("tuple", [E.Tok("row-kind"), E.Tok("row-bytes")])
            if callee_matches(t, r"sync::Capability::from_raw$"):
                log.append(("from_raw", names[0], names[1]))
                return E.Err(E.Tok("bad-capability")) if row == "undecodable" else E.Ok(E.Tok("capability-of(%s,%s)" % (names[0], names[1])))
            if name == "as_bytes" and len(args) == 1:
                return E.Tok("bytes(%s)" % names[0])
            if name == "id" and names and names[0].startswith("capability-of"):
                return E.Tok("id(%s)" % names[0])
            if name == "insert" and names and "open_replicas" in names[0]:
                log.append(("mark-open", names[1]))
                return E.Int(1)
            if name in ("into", "from") and len(args) == 1:
                return args[0]
            return C.handle(kind, name, payload, site)
        key = "load[row=%s]" % row
        try:
            ret, itp = E.run_it(f, LRI, [E.href("self"), E.href("id")], {"self": E.Tok("store"), "id": E.Tok("doc-id")}, oracle)
            r = itp.resolve(ret)
            got = E.describe(r, f)
            cap = None
            if r is not None and r[0] == "adt" and r[1] == E.RESULT and r[2] == 0:
                info = itp.resolve(r[3][0])
                cap = E.describe(itp.resolve(E.field(f, info, "sync::ReplicaInfo", "capability")), f)
                closed = E.describe(itp.resolve(E.field(f, info, "sync::ReplicaInfo", "closed")), f)
        except E.Unsupported as e:
            ctx.bad("C07.R13", LRI, key, "UNSUPPORTED-FORM: %s" % e, b.sp)
            continue
        gets = [x for x in log if x[0] == "get"]
        problems = []
        if gets != [("get", "namespaces-table", "bytes(doc-id)")]:
            problems.append("reads %s, spec: the capability table under the document's own id" % gets)
        if row == "present":
            if cap != "capability-of(row-kind,row-bytes)" or closed != "0":
                problems.append("opened with capability %s (closed=%s), spec: from_raw(the row's kind, the row's bytes), open" % (cap, closed))
        else:
            if not got.startswith("Err"):
                problems.append("returns %s, spec an error" % got)
            if row == "absent" and "NotFound" not in got:
                problems.append("an unknown document must be reported as NotFound, got %s" % got)
            if [x for x in log if x[0] == "mark-open"]:
                problems.append("a document that could not be loaded is marked open: %s" % log)
        ctx.check(not problems, "C07.R13", LRI, key, "returns %s, capability %s, effects %s" % (got[:60], cap, log), b.sp, bad_detail="; ".join(problems) + " - effects %s" % log)
    # new_replica
    nr = f.body("store::fs::Store::new_replica")
    ctx.touch(nr)
    log = []

    def oracle2(kind, name, payload, site):
        if kind != "call":
            return None
        t, args, it = payload
        names = [it.tokname(a).strip("&*") for a in args]
        if callee_matches(t, r"store::fs::Store::import_namespace$"):
            log.append(("import_namespace", E.describe(it.resolve(args[1]), f)))
            return E.Ok(E.Tok("outcome"))
        if callee_matches(t, r"store::fs::Store::open_replica$"):
            log.append(("open_replica", names[1]))
            return E.Ok(E.Tok("replica"))
        if name == "id" and names and names[0] == "secret":
            return E.Tok("id(secret)")
        if name in ("into", "from") and len(args) == 1 and names[0] == "secret":
            cands = [p for p in f.bodies if re.match(r"^<sync::Capability as std::convert::From<keys::NamespaceSecret>>::from$", p)]
            if cands:
                return it.call_body(cands[0], args, 1)
        return None
    try:
        ret, itp = E.run_it(f, nr.path, [E.href("self"), E.Tok("secret")], {"self": E.Tok("store")}, oracle2)
        got = E.describe(itp.resolve(ret), f)
    except E.Unsupported as e:
        got = "UNSUPPORTED-FORM: %s" % e
    ok = got == "Ok(replica)" and log == [("import_namespace", "Write(secret)"), ("open_replica", "id(secret)")]
    ctx.check(ok, "C07.R13", nr.path, "create-stores-the-write-capability", "returns %s after %s; spec: import Capability::Write(the secret), then open the document of that secret" % (got, log), nr.sp)
    ctx.floor("C07.R13", 5)


def r14(ctx):
    """"importing the write secret upgrades it": what a document is opened with is what the store holds for it *at that moment* -
    the in-memory state of a replica (ReplicaInfo) is built in exactly one place, Store::load_replica_info (R13 decides that it
    reads the stored row); nothing else - no memo of an earlier open in the actor, the engine or the API layer - constructs one"""
    f = ctx.facts
    allowed = {"store::fs::Store::load_replica_info"}
    callers = sorted({(b.rec.get("root") or b.path) for b in f.bodies.values() if not b.rec.get("derived") for _, t in b.calls() if callee_matches(t, r"sync::ReplicaInfo::new$")})
    builders = sorted({(b.rec.get("root") or b.path) for b in f.bodies.values() if not b.rec.get("derived") for _, _, s0 in b.statements()
                       if s0["k"] == "assign" and s0["r"][0] == "agg" and s0["r"][1][0] == "adt" and s0["r"][1][1] == "sync::ReplicaInfo"})
    if not callers or not builders:
        raise mir.AnchorMissing("no construction of sync::ReplicaInfo found (callers of new: %s, aggregates: %s)" % (callers, builders))
    ctx.check(set(callers) <= allowed, "C07.R14", "sync::ReplicaInfo::new", "replica-state-built-only-from-the-stored-row", "ReplicaInfo::new is called from %s; spec: only %s" % (callers, sorted(allowed)), None)
    ctx.check(set(builders) <= {"sync::ReplicaInfo::new"}, "C07.R14", "sync::ReplicaInfo", "replica-state-aggregate-only-in-new", "ReplicaInfo values are built in %s" % builders, None)
    ctx.floor("C07.R14", 2)

def r15(ctx):
    """the key algebra of src/keys.rs evaluated: the document a secret grants write access to is the id made of the bytes of that secret's own public key"""
    from . import keyalg
    keyalg.check(ctx, "C07.R15")
    ctx.floor("C07.R15", 40)

def r16(ctx):
    """"a replica imported with read-only capability never produces a locally authored entry": the capability an open replica signs
    with is the one loaded when it was opened (R13 / R14), so a document must not be removed - and re-imported with another
    capability - under a holder that still has it open: the drop handler evaluated against the handle count (C14.R6)"""
    from . import C14
    ctx.share("C07.R16", C14.r6, "C14.R6", floor=4)

def run(ctx):
    ctx.run_rule("C07.R1", r1)
    ctx.run_rule("C07.R2", r2)
    ctx.run_rule("C07.R3", r3)
    ctx.run_rule("C07.R4", r4)
    ctx.run_rule("C07.R5", r5)
    ctx.run_rule("C07.R6", r6)
    ctx.run_rule("C07.R7", r7)
    ctx.run_rule("C07.R8", r8)
    ctx.run_rule("C07.R9", r9)
    ctx.run_rule("C07.R10", r10)
    ctx.run_rule("C07.R11", r11)
    ctx.run_rule("C07.R12", r12)
    ctx.run_rule("C07.R13", r13)
    ctx.run_rule("C07.R14", r14)
    ctx.run_rule("C07.R15", r15)
    ctx.run_rule("C07.R16", r16)

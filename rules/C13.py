"""C13 — author heads and news detection reflect exactly the entries held."""
import re
from . import mir, tables
from .mir import trace, origin_summary, callee_matches
from .common import find_calls, one_call, comparisons, follow_value, TRUTH, flip
from . import C16

EXPLANATION = (
    "Decides structural necessary conditions of C13 from MIR: (R1) every write to the latest-per-author table outside the "
    "populate migration is control-dependent on a read of the existing row (an unconditional overwrite lets an older arrival "
    "lower the head); (R2) has_news_for reports news iff cmp(ours,theirs)=Greater or the author is unknown, has_news_for_us "
    "calls it with the peer's heads as receiver and the locally computed heads as argument, AuthorHeads::insert keeps the "
    "maximum; (R3) AuthorHeads::encode never funnels the (author,timestamp) pairs through a map whose key lacks the author, "
    "and drops the last pushed pair iff the serialized size is Greater than the limit; (R4) document removal erases the "
    "heads (shared with C16.R1). NOT decided: exact bytes kept under a limit."
)
ASSUMPTIONS = ["redb tables are identified by their key/value types", "postcard size computation trusted"]

LPA = "latest_per_author"


def r1(ctx):
    f = ctx.facts
    types = tables.table_types(f)
    ws = [w for w in tables.writes(f, types) if w[3] == LPA]
    n = 0
    for b, bi, t, name, op, ro in ws:
        if b.path.startswith("store::fs::migrations::") or b.path.startswith("store::fs::migrate_redb_v2_tuples::"):
            continue
        if op in ("remove", "retain", "retain_in", "extract_if", "extract_from_if"):
            continue
        n += 1
        ctx.touch(b)
        reads = [(rbi, rt) for rbi, rt in b.calls() if (tables.call_table(rt, types) or (None,))[0] == LPA and rt["f"].get("name") in ("get", "range", "first", "last")]
        # generic ReadableTable::get on the same table type
        dominated = [(rbi, rt) for rbi, rt in reads if b.dominates(rbi, bi) and rbi != bi]
        conditional = False
        if dominated:
            rbi = dominated[0][0]
            # a SUCCESS path from the read to a return that avoids the write (error returns of `?`
            # do not count: they skip the write whatever the existing row is)
            residual = {x for x, tt in b.calls() if tt["f"].get("name") == "from_residual"}
            errs = {x for x, si, s in b.statements() if s["k"] == "assign" and s["p"]["l"] == 0 and s["r"][0] == "agg" and s["r"][1][0] == "adt" and s["r"][1][2] == "Err"}
            region = b.reach_from_edges(b.succ()[rbi], avoid={bi} | residual | errs)
            conditional = any(b.blocks[x]["t"]["k"] == "return" for x in region)
        ctx.check(bool(dominated) and conditional, "C13.R1", b.path, "head-write-conditional-on-existing-row",
                  "the head row is written only after reading the existing row and only on some outcomes of that read" if dominated and conditional else
                  "the head row (timestamp,key) of the author is overwritten unconditionally: an older entry arriving after a newer one lowers the reported head",
                  t["sp"])
    if n < 1:
        raise mir.AnchorMissing("no non-migration write to the latest-per-author table found")
    ctx.floor("C13.R1", 1)


def r2(ctx):
    f = ctx.facts
    from . import feval as E
    h = f.body("heads::AuthorHeads::has_news_for")
    ctx.touch(h)
    for c in f.descendants(h.path):
        ctx.touch(c)
    # finite evaluation on a one-author abstraction: self holds (author, ts_ours); other either does not
    # know the author or holds ts_theirs with cmp(ts_ours, ts_theirs) in {Less, Equal, Greater}
    rows = {}
    for known in (False, True):
        for order in (("Less", "Equal", "Greater") if known else (None,)):
            state = {"n": 0, "filter": None}

            def oracle(kind, a, b2, site, known=known, order=order, state=state):
                if kind == "call":
                    t, args, it = b2
                    full = t["f"].get("full", "") + " " + (t["f"].get("res") or "")
                    if a == "iter" and "AuthorHeads" in full:
                        return E.Tok("self.iter")
                    if a == "into_iter":
                        return args[0]
                    if a == "next":
                        state["n"] += 1
                        if state["n"] == 1:
                            it.heap["author0"] = E.Tok("author")
                            it.heap["ts_ours0"] = E.Tok("ts_ours")
                            return E.Some(("tuple", [E.href("author0"), E.href("ts_ours0")]))
                        return E.NONE
                    if a == "get" and "AuthorHeads" in full:
                        who = it.tokname(args[0])
                        return E.Some(E.Tok("ts_theirs")) if known else E.NONE
                    if a == "filter":
                        state["filter"] = args[1]
                        return E.Tok("filtered")
                    if a == "count" and state["filter"] is not None:
                        it.heap["author0"] = E.Tok("author")
                        it.heap["ts_ours0"] = E.Tok("ts_ours")
                        item = ("tuple", [E.href("author0"), E.href("ts_ours0")])
                        it.heap["item0"] = item
                        cl = it.deref_val(state["filter"])
                        it.heap["filtercl"] = cl
                        r = it.call_body(cl[1], [E.href("filtercl"), E.href("item0")], 1)
                        r = it.deref_val(r)
                        return E.Int(r[1]) if E.is_int(r) else None
                    if a == "new" and "NonZero" in full:
                        return E.Tok("count=%s" % it.tokname(args[0]))
                    return None
                if kind in ("cmp", "eq") and "ts_ours" in str(a) + str(b2) and "ts_theirs" in str(a) + str(b2):
                    o = {"Less": -1, "Equal": 0, "Greater": 1}[order]
                    if str(a).startswith("ts_theirs"):
                        o = -o
                    return (o == 0) if kind == "eq" else o
                return None
            try:
                ret, hp, ev = E.run(f, h.path, [E.href("self"), E.href("other")], {"self": E.Tok("self"), "other": E.Tok("other")}, oracle)
                rows[("known" if known else "unknown", order)] = E.describe(ret, f)
            except E.Unsupported as e:
                rows[("known" if known else "unknown", order)] = "UNSUPPORTED-FORM: %s" % e
    want = {("unknown", None): "count=1", ("known", "Less"): "count=0", ("known", "Equal"): "count=0", ("known", "Greater"): "count=1"}
    ctx.check(rows == want, "C13.R2", h.path, "news-iff-strictly-newer-or-unknown-author",
              "(peer knows the author, cmp(ours, theirs)) -> news count for that author: %s; spec: flagged exactly for a strictly newer timestamp or an unknown author" % rows, h.sp)
    g = [t for b in f.family(h.path) for _, t in b.calls() if callee_matches(t, r"heads::AuthorHeads::get$")]
    okg = len(g) == 1
    ctx.check(okg, "C13.R2", h.path, "single-lookup-of-their-head", "%d lookups of the other side's head" % len(g), h.sp)
    it = [t for _, t in h.calls() if callee_matches(t, r"heads::AuthorHeads::iter$")]
    ok = len(it) == 1 and {o.data[1] for o in trace(h, it[0]["a"][0]) if o.kind == "arg"} == {"self"}
    ctx.check(ok, "C13.R2", h.path, "iterates-self", "ours = self.iter()", h.sp)
    if okg:
        gb = [b for b in f.family(h.path) if any(t is g[0] for _, t in b.calls())][0]
        from .common import lift_origins
        recv = lift_origins(f, gb, trace(gb, g[0]["a"][0]), h)
        ok = {o.data[1] for o in recv if o.kind == "arg"} == {"other"} and all(o.kind == "arg" for o in recv)
        ctx.check(ok, "C13.R2", h.path, "lookup-in-other", "theirs = other.get(author): receiver %s" % [origin_summary(o) for o in recv], g[0]["sp"])

    # has_news_for_us: receiver = peer heads argument, argument = locally computed heads
    u = f.body("store::fs::Store::has_news_for_us")
    ctx.touch(u)
    bi, t = one_call(u, r"heads::AuthorHeads::has_news_for$")
    recv = {origin_summary(o) for o in trace(u, t["a"][0])}
    arg = trace(u, t["a"][1])
    ctx.check(recv == {"arg:heads"}, "C13.R2", u.path, "receiver-is-peer-heads", "receiver %s" % recv, t["sp"])
    local = all(o.kind == "call" and o.data["f"].get("name") == "default" for o in arg) and bool(arg)
    ctx.check(local, "C13.R2", u.path, "argument-is-local-heads", "argument origins %s" % [origin_summary(o) for o in arg], t["sp"])
    ins = [t2 for _, t2 in u.calls() if callee_matches(t2, r"heads::AuthorHeads::insert$")]
    gl = [t2 for _, t2 in u.calls() if callee_matches(t2, r"get_latest_for_each_author$")]
    ok = len(ins) == 1 and len(gl) == 1 and {o.data[1] for o in trace(u, gl[0]["a"][1]) if o.kind == "arg"} == {"namespace"}
    ctx.check(ok, "C13.R2", u.path, "local-heads-from-this-namespace", "local heads are filled from get_latest_for_each_author(namespace)", u.sp)
    # AuthorHeads::insert keeps the maximum
    i = f.body("heads::AuthorHeads::insert")
    ctx.touch(i)
    ok = False
    det = ""
    for c in f.descendants(i.path):
        ctx.touch(c)
        mx = [t2 for _, t2 in c.calls() if t2["f"].get("name") == "max"]
        mn = [t2 for _, t2 in c.calls() if t2["f"].get("name") == "min"]
        if mx and not mn:
            # result stored through the &mut existing value
            for bi2, si2, s in c.statements():
                if s["k"] == "assign" and s["p"]["p"] and s["p"]["p"][0][0] == "deref" and s["p"]["l"] == 2:
                    src = trace(c, s["r"][1]) if s["r"][0] == "use" else []
                    if any(o.kind == "call" and o.data is mx[0] for o in trace(c, s["r"][1], through_calls=False)) if s["r"][0] == "use" else False:
                        ok = True
            det = "and_modify stores max(existing, new)"
        if mn:
            det = "uses min"
    ctx.check(ok, "C13.R2", i.path, "insert-keeps-maximum", det or "no max() in the and_modify closure (UNSUPPORTED-FORM)", i.sp)
    oi = [t2 for _, t2 in i.calls() if t2["f"].get("name") == "or_insert"]
    ok = len(oi) == 1 and {o.data[1] for o in trace(i, oi[0]["a"][1]) if o.kind == "arg"} == {"timestamp"}
    ctx.check(ok, "C13.R2", i.path, "or_insert-new-timestamp", "vacant entry gets the new timestamp", i.sp)
    ctx.floor("C13.R2", 9)


def r3(ctx):
    f = ctx.facts
    e = f.body("heads::AuthorHeads::encode")
    ctx.touch(e)
    maps = []
    for bi, t in e.calls():
        fu = t["f"].get("full", "")
        m = re.match(r"std::collections::(BTreeMap|HashMap|BTreeSet|HashSet)::<(.*?)>::(insert|entry)", fu)
        if m:
            maps.append((t, m.group(1), m.group(2)))
    n = 0
    for t, kind, kv in maps:
        if kind.endswith("Set"):
            key = kv
        else:
            key = kv.split(",")[0] if not kv.startswith("(") else kv[:kv.index(")") + 1]
        n += 1
        ctx.check("AuthorId" in key, "C13.R3", e.path, "intermediate-map-key-includes-author",
                  "pairs are collected in a %s<%s>; key type %s %s" % (kind, kv, key, "" if "AuthorId" in key else
                  "lacks the author: two authors with equal timestamps collapse into one, so encode loses a head even without a size limit"), t["sp"])
    if n == 0:
        ctx.ok("C13.R3", e.path, "intermediate-map-key-includes-author", "no intermediate map is used", e.sp)
    # every (author, ts) of self reaches `items`: the push is in a loop over self.iter() or over a collection built from it
    # truncation: pop iff serialized_size > limit
    cm = [c for c in comparisons(e) if not mir.is_noise(c["x"]) and not (c["x"] and "debug_assert" in c["x"])]
    sz = []
    for c in cm:
        def lab(op):
            ks = set()
            for o in trace(e, op, through_calls=False):
                if o.kind == "call" and o.data["f"].get("name") == "branch":
                    for o2 in trace(e, o.data["a"][0], through_calls=False):
                        if o2.kind == "call" and o2.data["f"].get("name") == "serialized_size":
                            ks.add("size")
                elif o.kind == "call" and o.data["f"].get("name") == "serialized_size":
                    ks.add("size")
                elif o.kind == "call" and o.data["f"].get("name") == "len":
                    ks.add("size")
                elif o.kind == "arg" and o.data[1] == "size_limit":
                    ks.add("limit")
                else:
                    ks.add("?")
            return ks.pop() if len(ks) == 1 else None
        la, lb = lab(c["a"]), lab(c["b"])
        if {la, lb} == {"size", "limit"}:
            tbl = TRUTH[c["op"]] if la == "size" else flip(TRUTH[c["op"]])
            sz.append((c, tbl))
    if len(sz) != 1:
        ctx.bad("C13.R3", e.path, "truncation-compare", "expected one comparison of the serialized size with the limit, found %d (UNSUPPORTED-FORM)" % len(sz), e.sp)
    else:
        c, tbl = sz[0]
        edges = follow_value(e, c["dest"]["l"])
        pops = [bi for bi, t in e.calls() if t["f"].get("name") == "pop"]
        t_e, f_e = edges.get("true"), edges.get("false")
        pop_on_true = bool(t_e) and any(e.edge_dominates(t_e[0], t_e[1], p) for p in pops)
        pop_on_false = bool(f_e) and any(e.edge_dominates(f_e[0], f_e[1], p) for p in pops)
        popped = {o: (tbl[o] if pop_on_true else (not tbl[o] if pop_on_false else None)) for o in tbl}
        spec = {"Less": False, "Equal": False, "Greater": True}
        ctx.check(popped == spec, "C13.R3", e.path, "pop-iff-over-limit", "dropped(cmp(size,limit)) = %s; spec %s" % (popped, spec), c["loc"])
        # after pop the loop is left (no further pushes)
        if pops:
            pushes = [bi for bi, t in e.calls() if t["f"].get("name") == "push"]
            after = e.reachable(pops[0])
            ctx.check(not any(p in after for p in pushes), "C13.R3", e.path, "stop-after-pop", "no push is reachable after the pop (encoding stops at the first head that does not fit)", e.loc(pops[0]))
    # newest first: iteration in descending order (rev) over an order keyed by timestamp first
    revs = [t for _, t in e.calls() if t["f"].get("name") in ("rev", "sort_by", "sort_unstable_by", "sort_by_key", "sort_unstable_by_key", "sort", "sort_unstable", "reverse", "into_sorted_vec")]
    ctx.check(bool(revs), "C13.R3", e.path, "ordered-newest-first", "pairs are emitted from an ordered collection in reverse/explicitly sorted order (%s)" % [t["f"].get("name") for t in revs], e.sp)
    # decode inserts every decoded pair
    d = f.body("heads::AuthorHeads::decode")
    ctx.touch(d)
    ins = [t for _, t in d.calls() if callee_matches(t, r"heads::AuthorHeads::insert$")]
    ctx.check(len(ins) == 1, "C13.R3", d.path, "decode-inserts-each-pair", "decode feeds every decoded pair to insert", d.sp)
    ctx.floor("C13.R3", 5)


def r4(ctx):
    C16.r1(ctx, rule="C13.R4", only={LPA})


def run(ctx):
    ctx.run_rule("C13.R1", r1)
    ctx.run_rule("C13.R2", r2)
    ctx.run_rule("C13.R3", r3)
    ctx.run_rule("C13.R4", r4)

"""C13 — author heads and news detection reflect exactly the entries held."""
import re
from . import mir, tables
from .mir import trace, origin_summary, callee_matches
from .common import find_calls, one_call, comparisons, follow_value, TRUTH, flip
from . import C16

EXPLANATION = (
    "Decides structural necessary conditions of C13 from MIR: (R1) every write to the latest-per-author table outside the "
    "populate migration is control-dependent on a read of the existing row (an unconditional overwrite lets an older arrival "
    "lower the head); (R2) has_news_for reports news iff cmp(ours,theirs)=Greater or the author is unknown, has_news_for_us "
    "calls it with the peer's heads as receiver and the locally computed heads as argument, AuthorHeads::insert keeps the "
    "maximum; (R3) AuthorHeads::encode never funnels the (author,timestamp) pairs through a map whose key lacks the author, "
    "and drops the last pushed pair iff the serialized size is Greater than the limit; (R4) document removal erases the "
    "heads (shared with C16.R1). NOT decided: exact bytes kept under a limit."
)
ASSUMPTIONS = ["redb tables are identified by their key/value types", "postcard size computation trusted"]

LPA = "latest_per_author"


def r1(ctx):
    f = ctx.facts
    types = tables.table_types(f)
    ws = [w for w in tables.writes(f, types) if w[3] == LPA]
    n = 0
    for b, bi, t, name, op, ro in ws:
        if b.path.startswith("store::fs::migrations::") or b.path.startswith("store::fs::migrate_redb_v2_tuples::"):
            continue
        if op in ("remove", "retain", "retain_in", "extract_if", "extract_from_if"):
            continue
        n += 1
        ctx.touch(b)
        reads = [(rbi, rt) for rbi, rt in b.calls() if (tables.call_table(rt, types) or (None,))[0] == LPA and rt["f"].get("name") in ("get", "range", "first", "last")]
        # generic ReadableTable::get on the same table type
        dominated = [(rbi, rt) for rbi, rt in reads if b.dominates(rbi, bi) and rbi != bi]
        conditional = False
        if dominated:
            rbi = dominated[0][0]
            # a SUCCESS path from the read to a return that avoids the write (error returns of `?`
            # do not count: they skip the write whatever the existing row is)
            residual = {x for x, tt in b.calls() if tt["f"].get("name") == "from_residual"}
            errs = {x for x, si, s in b.statements() if s["k"] == "assign" and s["p"]["l"] == 0 and s["r"][0] == "agg" and s["r"][1][0] == "adt" and s["r"][1][2] == "Err"}
            region = b.reach_from_edges(b.succ()[rbi], avoid={bi} | residual | errs)
            conditional = any(b.blocks[x]["t"]["k"] == "return" for x in region)
        ctx.check(bool(dominated) and conditional, "C13.R1", b.path, "head-write-conditional-on-existing-row",
                  "the head row is written only after reading the existing row and only on some outcomes of that read" if dominated and conditional else
                  "the head row (timestamp,key) of the author is overwritten unconditionally: an older entry arriving after a newer one lowers the reported head",
                  t["sp"])
    if n < 1:
        raise mir.AnchorMissing("no non-migration write to the latest-per-author table found")
    ctx.floor("C13.R1", 1)


def r2(ctx):
    f = ctx.facts
    h = f.body("heads::AuthorHeads::has_news_for")
    ctx.touch(h)
    # the map closure: compares ours vs theirs
    cl = [c for c in f.descendants(h.path)]
    cmp_sites = []
    for c in cl:
        ctx.touch(c)
        for cm in comparisons(c):
            cmp_sites.append((c, cm))
    for cm in comparisons(h):
        cmp_sites.append((h, cm))
    cmp_sites = [(b, c) for b, c in cmp_sites if not mir.is_noise(c["x"])]
    if len(cmp_sites) != 1:
        ctx.bad("C13.R2", h.path, "single-timestamp-comparison", "expected one comparison of our timestamp with theirs, found %d (UNSUPPORTED-FORM)" % len(cmp_sites), h.sp)
    else:
        b, c = cmp_sites[0]
        def lab(op):
            ks = set()
            for o in trace(b, op):
                s = origin_summary(o)
                if "ts_ours" in s or (o.kind == "call" and "iter" in s) or (o.kind == "upvar" and o.data == "ts_ours"):
                    ks.add("ours")
                elif o.kind == "arg" and (o.data[1] in ("ts_theirs",) or o.data[0] == 2):
                    ks.add("theirs")
                elif o.kind == "call" and o.data["f"].get("name") == "get":
                    ks.add("theirs")
                else:
                    ks.add("?" + s)
            return ks.pop() if len(ks) == 1 else None
        la, lb = lab(c["a"]), lab(c["b"])
        tbl = TRUTH[c["op"]] if (la, lb) == ("ours", "theirs") else (flip(TRUTH[c["op"]]) if (la, lb) == ("theirs", "ours") else None)
        if tbl is None:
            ctx.bad("C13.R2", b.path, "news-compare.operands", "cannot label operands (%s,%s) (UNSUPPORTED-FORM)" % (la, lb), c["loc"])
        else:
            # the comparison result is the closure's return / or the branch that increments
            is_ret = c["dest"]["l"] == 0 and b is not h
            spec = {"Less": False, "Equal": False, "Greater": True}
            ctx.check(is_ret and tbl == spec, "C13.R2", b.path, "news-iff-strictly-newer",
                      "news(cmp(ours,theirs)) = %s; spec: flagged exactly for a strictly newer timestamp %s" % (tbl, spec), c["loc"])
    # unknown author => news: unwrap_or(true)
    uo = [t for _, t in h.calls() if t["f"].get("name") in ("unwrap_or", "map_or", "is_none_or", "is_some_and")]
    ok = False
    det = "no default found"
    for t in uo:
        n = t["f"].get("name")
        if n == "unwrap_or" and t["a"][1][0] == "const":
            ok = t["a"][1][1].get("val") == 1
            det = "unwrap_or(%s)" % t["a"][1][1].get("val")
        elif n == "map_or" and t["a"][1][0] == "const":
            ok = t["a"][1][1].get("val") == 1
            det = "map_or(%s, ..)" % t["a"][1][1].get("val")
        elif n == "is_none_or":
            ok = True
            det = "is_none_or"
    ctx.check(ok, "C13.R2", h.path, "unknown-author-is-news", det, h.sp)
    # the lookup is in `other` by the author we iterate
    g = [t for _, t in h.calls() if callee_matches(t, r"heads::AuthorHeads::get$")]
    ok = len(g) == 1 and {o.data[1] for o in trace(h, g[0]["a"][0]) if o.kind == "arg"} == {"other"}
    ctx.check(ok, "C13.R2", h.path, "lookup-in-other", "theirs = other.get(author)", h.sp)
    it = [t for _, t in h.calls() if callee_matches(t, r"heads::AuthorHeads::iter$")]
    ok = len(it) == 1 and {o.data[1] for o in trace(h, it[0]["a"][0]) if o.kind == "arg"} == {"self"}
    ctx.check(ok, "C13.R2", h.path, "iterates-self", "ours = self.iter()", h.sp)

    # has_news_for_us: receiver = peer heads argument, argument = locally computed heads
    u = f.body("store::fs::Store::has_news_for_us")
    ctx.touch(u)
    bi, t = one_call(u, r"heads::AuthorHeads::has_news_for$")
    recv = {origin_summary(o) for o in trace(u, t["a"][0])}
    arg = trace(u, t["a"][1])
    ctx.check(recv == {"arg:heads"}, "C13.R2", u.path, "receiver-is-peer-heads", "receiver %s" % recv, t["sp"])
    local = all(o.kind == "call" and o.data["f"].get("name") == "default" for o in arg) and bool(arg)
    ctx.check(local, "C13.R2", u.path, "argument-is-local-heads", "argument origins %s" % [origin_summary(o) for o in arg], t["sp"])
    ins = [t2 for _, t2 in u.calls() if callee_matches(t2, r"heads::AuthorHeads::insert$")]
    gl = [t2 for _, t2 in u.calls() if callee_matches(t2, r"get_latest_for_each_author$")]
    ok = len(ins) == 1 and len(gl) == 1 and {o.data[1] for o in trace(u, gl[0]["a"][1]) if o.kind == "arg"} == {"namespace"}
    ctx.check(ok, "C13.R2", u.path, "local-heads-from-this-namespace", "local heads are filled from get_latest_for_each_author(namespace)", u.sp)
    # AuthorHeads::insert keeps the maximum
    i = f.body("heads::AuthorHeads::insert")
    ctx.touch(i)
    ok = False
    det = ""
    for c in f.descendants(i.path):
        ctx.touch(c)
        mx = [t2 for _, t2 in c.calls() if t2["f"].get("name") == "max"]
        mn = [t2 for _, t2 in c.calls() if t2["f"].get("name") == "min"]
        if mx and not mn:
            # result stored through the &mut existing value
            for bi2, si2, s in c.statements():
                if s["k"] == "assign" and s["p"]["p"] and s["p"]["p"][0][0] == "deref" and s["p"]["l"] == 2:
                    src = trace(c, s["r"][1]) if s["r"][0] == "use" else []
                    if any(o.kind == "call" and o.data is mx[0] for o in trace(c, s["r"][1], through_calls=False)) if s["r"][0] == "use" else False:
                        ok = True
            det = "and_modify stores max(existing, new)"
        if mn:
            det = "uses min"
    ctx.check(ok, "C13.R2", i.path, "insert-keeps-maximum", det or "no max() in the and_modify closure (UNSUPPORTED-FORM)", i.sp)
    oi = [t2 for _, t2 in i.calls() if t2["f"].get("name") == "or_insert"]
    ok = len(oi) == 1 and {o.data[1] for o in trace(i, oi[0]["a"][1]) if o.kind == "arg"} == {"timestamp"}
    ctx.check(ok, "C13.R2", i.path, "or_insert-new-timestamp", "vacant entry gets the new timestamp", i.sp)
    ctx.floor("C13.R2", 9)


def r3(ctx):
    f = ctx.facts
    e = f.body("heads::AuthorHeads::encode")
    ctx.touch(e)
    maps = []
    for bi, t in e.calls():
        fu = t["f"].get("full", "")
        m = re.match(r"std::collections::(BTreeMap|HashMap|BTreeSet|HashSet)::<(.*?)>::(insert|entry)", fu)
        if m:
            maps.append((t, m.group(1), m.group(2)))
    n = 0
    for t, kind, kv in maps:
        if kind.endswith("Set"):
            key = kv
        else:
            key = kv.split(",")[0] if not kv.startswith("(") else kv[:kv.index(")") + 1]
        n += 1
        ctx.check("AuthorId" in key, "C13.R3", e.path, "intermediate-map-key-includes-author",
                  "pairs are collected in a %s<%s>; key type %s %s" % (kind, kv, key, "" if "AuthorId" in key else
                  "lacks the author: two authors with equal timestamps collapse into one, so encode loses a head even without a size limit"), t["sp"])
    if n == 0:
        ctx.ok("C13.R3", e.path, "intermediate-map-key-includes-author", "no intermediate map is used", e.sp)
    # every (author, ts) of self reaches `items`: the push is in a loop over self.iter() or over a collection built from it
    # truncation: pop iff serialized_size > limit
    cm = [c for c in comparisons(e) if not mir.is_noise(c["x"]) and not (c["x"] and "debug_assert" in c["x"])]
    sz = []
    for c in cm:
        def lab(op):
            ks = set()
            for o in trace(e, op, through_calls=False):
                if o.kind == "call" and o.data["f"].get("name") == "branch":
                    for o2 in trace(e, o.data["a"][0], through_calls=False):
                        if o2.kind == "call" and o2.data["f"].get("name") == "serialized_size":
                            ks.add("size")
                elif o.kind == "call" and o.data["f"].get("name") == "serialized_size":
                    ks.add("size")
                elif o.kind == "call" and o.data["f"].get("name") == "len":
                    ks.add("size")
                elif o.kind == "arg" and o.data[1] == "size_limit":
                    ks.add("limit")
                else:
                    ks.add("?")
            return ks.pop() if len(ks) == 1 else None
        la, lb = lab(c["a"]), lab(c["b"])
        if {la, lb} == {"size", "limit"}:
            tbl = TRUTH[c["op"]] if la == "size" else flip(TRUTH[c["op"]])
            sz.append((c, tbl))
    if len(sz) != 1:
        ctx.bad("C13.R3", e.path, "truncation-compare", "expected one comparison of the serialized size with the limit, found %d (UNSUPPORTED-FORM)" % len(sz), e.sp)
    else:
        c, tbl = sz[0]
        edges = follow_value(e, c["dest"]["l"])
        pops = [bi for bi, t in e.calls() if t["f"].get("name") == "pop"]
        t_e, f_e = edges.get("true"), edges.get("false")
        pop_on_true = bool(t_e) and any(e.edge_dominates(t_e[0], t_e[1], p) for p in pops)
        pop_on_false = bool(f_e) and any(e.edge_dominates(f_e[0], f_e[1], p) for p in pops)
        popped = {o: (tbl[o] if pop_on_true else (not tbl[o] if pop_on_false else None)) for o in tbl}
        spec = {"Less": False, "Equal": False, "Greater": True}
        ctx.check(popped == spec, "C13.R3", e.path, "pop-iff-over-limit", "dropped(cmp(size,limit)) = %s; spec %s" % (popped, spec), c["loc"])
        # after pop the loop is left (no further pushes)
        if pops:
            pushes = [bi for bi, t in e.calls() if t["f"].get("name") == "push"]
            after = e.reachable(pops[0])
            ctx.check(not any(p in after for p in pushes), "C13.R3", e.path, "stop-after-pop", "no push is reachable after the pop (encoding stops at the first head that does not fit)", e.loc(pops[0]))
    # newest first: iteration in descending order (rev) over an order keyed by timestamp first
    revs = [t for _, t in e.calls() if t["f"].get("name") in ("rev", "sort_by", "sort_unstable_by", "sort_by_key", "sort_unstable_by_key", "sort", "sort_unstable", "reverse", "into_sorted_vec")]
    ctx.check(bool(revs), "C13.R3", e.path, "ordered-newest-first", "pairs are emitted from an ordered collection in reverse/explicitly sorted order (%s)" % [t["f"].get("name") for t in revs], e.sp)
    # decode inserts every decoded pair
    d = f.body("heads::AuthorHeads::decode")
    ctx.touch(d)
    ins = [t for _, t in d.calls() if callee_matches(t, r"heads::AuthorHeads::insert$")]
    ctx.check(len(ins) == 1, "C13.R3", d.path, "decode-inserts-each-pair", "decode feeds every decoded pair to insert", d.sp)
    ctx.floor("C13.R3", 5)


def r4(ctx):
    C16.r1(ctx, rule="C13.R4", only={LPA})


def run(ctx):
    ctx.run_rule("C13.R1", r1)
    ctx.run_rule("C13.R2", r2)
    ctx.run_rule("C13.R3", r3)
    ctx.run_rule("C13.R4", r4)

"""C13 — author heads and news detection reflect exactly the entries held."""
import re
from . import mir, tables
from .mir import trace, origin_summary, callee_matches
from .common import find_calls, one_call, comparisons, follow_value, TRUTH, flip
from . import C16

EXPLANATION = (
    'Decides structural necessary conditions of C13 from MIR: (R1) every write to the latest-per-author table outside the '
    'populate migration is control-dependent on a read of the existing row (an unconditional overwrite lets an older '
    'arrival lower the head); (R2) has_news_for reports news iff cmp(ours,theirs)=Greater or the author is unknown, '
    "has_news_for_us calls it with the peer's heads as receiver and the locally computed heads as argument, "
    'AuthorHeads::insert keeps the maximum; (R3) AuthorHeads::encode, evaluated with abstract collections on (heads table, '
    'size limit) cells under the size model 1 + 40 per pair, emits all heads when unlimited (authors sharing a timestamp '
    'are all kept) and otherwise the longest newest-first prefix that fits; (R4) document removal erases the heads (shared '
    'with C16.R1); (R5) the heads rebuilt by migration 001 and maintained by entry_put, both evaluated over an abstract '
    'records table, are the greatest (timestamp, key) per (namespace, author) with ties resolved alike (shared with C18.R2). (R6) the store actor forwards HasNewsForUs one to one (the store-actor handler evaluated with the fields of the request as named tokens and gates / store / replica calls answered by an oracle, each step also failing in turn: the own fields of the request reach the core function in order on the addressed document, nothing is carried out after a failed step, the reply is the result of that function; the SyncHandle method evaluated: one request of its own kind, addressed to its namespace argument, each field one of its own parameters, the reply of the actor returned). (R7) the live actor handler of gossiped head reports evaluated on (syncing, decodable, verdict of has_news_for_us): one request to the sender of the report, for the document it names, exactly when the store flags the decoded heads as news. (R8) the scan behind the head queries (LatestIterator::new) evaluated on concrete document ids and decided on sample rows: exactly the head rows of the document asked about. (R9) = the heads clause of C01.R3: the heads reported after a session cover every received entry. (R10) the file-format migration carries the heads table and the records. NOT decided: exact bytes kept under a limit.'
)
ASSUMPTIONS = ["redb tables are identified by their key/value types", "postcard size computation trusted"]

LPA = "latest_per_author"


EXPLANATION += ' (R11, round 9) = C02.R3: the byte primitives behind the bounds of the head scans.'
EXPLANATION += ' (R12, round 10) = the prune-predicate rows of C02.R1 (an entry removed behind the back of the head bookkeeping leaves a head nobody holds).'
EXPLANATION += ' (R13, round 12) = C16.R15: no per-document memo (e.g. of heads) in the store outlives the document.'
EXPLANATION += " (R14, round 13) = C02.R2b: the parent lookup includes the key itself and the empty key (an older entry never replaces a newer one behind the head's back)."


def r1(ctx):
    f = ctx.facts
    types = tables.table_types(f)
    ws = [w for w in tables.writes(f, types) if w[3] == LPA]
    n = 0
    for b, bi, t, name, op, ro in ws:
        if b.path.startswith("store::fs::migrations::") or b.path.startswith("store::fs::migrate_redb_v2_tuples::"):
            continue
        if op in ("remove", "retain", "retain_in", "extract_if", "extract_from_if"):
            continue
        n += 1
        ctx.touch(b)
        reads = [(rbi, rt) for rbi, rt in b.calls() if (tables.call_table(rt, types) or (None,))[0] == LPA and rt["f"].get("name") in ("get", "range", "first", "last")]
        # generic ReadableTable::get on the same table type
        dominated = [(rbi, rt) for rbi, rt in reads if b.dominates(rbi, bi) and rbi != bi]
        conditional = False
        if dominated:
            rbi = dominated[0][0]
            # a SUCCESS path from the read to a return that avoids the write (error returns of `?`
            # do not count: they skip the write whatever the existing row is)
            residual = {x for x, tt in b.calls() if tt["f"].get("name") == "from_residual"}
            errs = {x for x, si, s in b.statements() if s["k"] == "assign" and s["p"]["l"] == 0 and s["r"][0] == "agg" and s["r"][1][0] == "adt" and s["r"][1][2] == "Err"}
            region = b.reach_from_edges(b.succ()[rbi], avoid={bi} | residual | errs)
            conditional = any(b.blocks[x]["t"]["k"] == "return" for x in region)
        ctx.check(bool(dominated) and conditional, "C13.R1", b.path, "head-write-conditional-on-existing-row",
                  "the head row is written only after reading the existing row and only on some outcomes of that read" if dominated and conditional else
                  "the head row (timestamp,key) of the author is overwritten unconditionally: an older entry arriving after a newer one lowers the reported head",
                  t["sp"])
    if n < 1:
        raise mir.AnchorMissing("no non-migration write to the latest-per-author table found")
    ctx.floor("C13.R1", 1)


def r2(ctx):
    f = ctx.facts
    from . import feval as E
    h = f.body("heads::AuthorHeads::has_news_for")
    ctx.touch(h)
    for c in f.descendants(h.path):
        ctx.touch(c)
    # finite evaluation on a one-author abstraction: self holds (author, ts_ours); other either does not
    # know the author or holds ts_theirs with cmp(ts_ours, ts_theirs) in {Less, Equal, Greater}
    rows = {}
    for known in (False, True):
        for order in (("Less", "Equal", "Greater") if known else (None,)):
            state = {"n": 0, "filter": None}

            def oracle(kind, a, b2, site, known=known, order=order, state=state):
                if kind == "call":
                    t, args, it = b2
                    full = t["f"].get("full", "") + " " + (t["f"].get("res") or "")
                    if a == "iter" and "AuthorHeads" in full:
                        # (role-aware since round 13: the heads iterated are the receiver's own, the lookup is in the other side's -
                        # a function that swaps the roles finds no answer here and fails closed)
                        if it.tokname(args[0]).strip("&*") != "self":
                            return None
                        return E.Tok("self.iter")
                    if a == "into_iter":
                        return args[0]
                    if a == "next":
                        state["n"] += 1
                        if state["n"] == 1:
                            it.heap["author0"] = E.Tok("author")
                            it.heap["ts_ours0"] = E.Tok("ts_ours")
                            return E.Some(("tuple", [E.href("author0"), E.href("ts_ours0")]))
                        return E.NONE
                    if a == "get" and "AuthorHeads" in full:
                        who = it.tokname(args[0]).strip("&*")
                        if who != "other" or it.tokname(args[1]).strip("&*") != "author":
                            return None
                        return E.Some(E.Tok("ts_theirs")) if known else E.NONE
                    if a == "filter":
                        state["filter"] = args[1]
                        return E.Tok("filtered")
                    if a == "count" and state["filter"] is not None:
                        it.heap["author0"] = E.Tok("author")
                        it.heap["ts_ours0"] = E.Tok("ts_ours")
                        item = ("tuple", [E.href("author0"), E.href("ts_ours0")])
                        it.heap["item0"] = item
                        cl = it.deref_val(state["filter"])
                        it.heap["filtercl"] = cl
                        r = it.call_body(cl[1], [E.href("filtercl"), E.href("item0")], 1)
                        r = it.deref_val(r)
                        return E.Int(r[1]) if E.is_int(r) else None
                    if a == "new" and "NonZero" in full:
                        return E.Tok("count=%s" % it.tokname(args[0]))
                    return None
                if kind in ("cmp", "eq") and "ts_ours" in str(a) + str(b2) and "ts_theirs" in str(a) + str(b2):
                    o = {"Less": -1, "Equal": 0, "Greater": 1}[order]
                    if str(a).startswith("ts_theirs"):
                        o = -o
                    return (o == 0) if kind == "eq" else o
                return None
            try:
                ret, hp, ev = E.run(f, h.path, [E.href("self"), E.href("other")], {"self": E.Tok("self"), "other": E.Tok("other")}, oracle)
                rows[("known" if known else "unknown", order)] = E.describe(ret, f)
            except E.Unsupported as e:
                rows[("known" if known else "unknown", order)] = "UNSUPPORTED-FORM: %s" % e
    want = {("unknown", None): "count=1", ("known", "Less"): "count=0", ("known", "Equal"): "count=0", ("known", "Greater"): "count=1"}
    ctx.check(rows == want, "C13.R2", h.path, "news-iff-strictly-newer-or-unknown-author",
              "(peer knows the author, cmp(ours, theirs)) -> news count for that author: %s; spec: flagged exactly for a strictly newer timestamp or an unknown author" % rows, h.sp)
    # (the lookup may sit in a private helper of has_news_for - RF32's `is_older_than` -: count it in the function's scope)
    if rows == want:
        # the evaluated rows decide the roles as well (ours = self.iter(), theirs = other.get(that author)): the three placement clauses
        # below were structural duplicates and false-alarmed on RF32 (the lookup moved into a helper method called on `other`)
        ctx.ok("C13.R2", h.path, "single-lookup-of-their-head", "decided by the evaluated rows (role-aware oracle)", h.sp)
        ctx.ok("C13.R2", h.path, "iterates-self", "decided by the evaluated rows (role-aware oracle)", h.sp)
        ctx.ok("C13.R2", h.path, "lookup-in-other", "decided by the evaluated rows (role-aware oracle)", h.sp)
    g = [] if rows == want else [t for b in f.scope(h.path, prefix="heads::") for _, t in b.calls() if callee_matches(t, r"heads::AuthorHeads::get$")]
    okg = len(g) == 1
    if rows != want:
        ctx.check(okg, "C13.R2", h.path, "single-lookup-of-their-head", "%d lookups of the other side's head" % len(g), h.sp)
        it = [t for _, t in h.calls() if callee_matches(t, r"heads::AuthorHeads::iter$")]
        ok = len(it) == 1 and {o.data[1] for o in trace(h, it[0]["a"][0]) if o.kind == "arg"} == {"self"}
        ctx.check(ok, "C13.R2", h.path, "iterates-self", "ours = self.iter()", h.sp)
    if okg:
        gb = [b for b in f.scope(h.path, prefix="heads::") if any(t is g[0] for _, t in b.calls())][0]
        from .common import lift_origins
        recv = lift_origins(f, gb, trace(gb, g[0]["a"][0]), h)
        ok = {o.data[1] for o in recv if o.kind == "arg"} == {"other"} and all(o.kind == "arg" for o in recv)
        ctx.check(ok, "C13.R2", h.path, "lookup-in-other", "theirs = other.get(author): receiver %s" % [origin_summary(o) for o in recv], g[0]["sp"])

    # has_news_for_us evaluated (K6' with abstract collections): the peer's heads are asked whether they have news for
    # the heads computed from this namespace's latest-per-author rows (all of them)
    from . import coll
    u = f.body("store::fs::Store::has_news_for_us")
    ctx.touch(*f.scope(u.path, prefix="store::fs::"))
    for rows_, label in (((("alice", 5), ("bob", 9), ("carol", 2)), "three-authors"), ((), "no-entries"), ((("alice", 5), "err", ("carol", 2)), "storage-error")):
        log = []
        C = coll.Collections(f)

        def oracle(kind, name, payload, site, rows_=rows_):
            if kind != "call":
                return None
            t, args, it = payload
            names = [it.tokname(x) for x in args]
            if name == "get_latest_for_each_author":
                log.append(("latest-of", names[1:]))
                items = [E.Err(E.Tok("storage-error")) if r == "err" else E.Ok(("tuple", [E.Tok(r[0]), E.Tok("ts%d" % r[1]), E.Tok("key")])) for r in rows_]
                return E.Ok(coll.seq("iter", items))
            if callee_matches(t, r"heads::AuthorHeads::insert$"):
                log.append(("insert", names))
                return E.UNIT
            if callee_matches(t, r"heads::AuthorHeads::has_news_for$"):
                log.append(("has_news_for", names))
                return E.Tok("verdict")
            if name == "default" and not args and "AuthorHeads" in (t["f"].get("full") or "") + (t["f"].get("path") or "") + (t["f"].get("res") or ""):
                return E.Tok("local-heads")
            return C.handle(kind, name, payload, site)
        try:
            ret, it_ = E.run_it(f, u.path, [E.href("self"), E.Tok("namespace"), E.href("heads")], {"self": E.Tok("store"), "heads": E.Tok("peer-heads")}, oracle)
            got = E.describe(ret, f)
        except E.Unsupported as ex:
            got = "UNSUPPORTED-FORM: %s" % ex
        if label == "storage-error":
            ok = got.startswith("Err") and not any(x[0] == "has_news_for" for x in log)
            spec = "a storage error is reported, no verdict from partial heads"
        else:
            want = [("latest-of", ["namespace"])] + [("insert", ["local-heads", r[0], "ts%d" % r[1]]) for r in rows_] + [("has_news_for", ["peer-heads", "local-heads"])]
            ok = got == "Ok(verdict)" and log == want
            spec = "peer_heads.has_news_for(heads built from every latest-per-author row of this namespace)"
        ctx.check(ok, "C13.R2", u.path, "news-for-us[%s]" % label, "returns %s; effects %s; spec: %s" % (got, log, spec), u.sp)
    # AuthorHeads::insert keeps the maximum: evaluated (K6') on {author unknown, known with cmp(new, stored) in Less/Equal/Greater};
    # the map's entry API (combinator and match forms) and its direct API are modelled for the one key
    i = f.body("heads::AuthorHeads::insert")
    ctx.touch(*f.scope(i.path, prefix="heads::"))
    # variant indices of the map's Entry enum as this crate's MIR names them (BTreeMap: Vacant, Occupied)
    idx = {"Vacant": 0, "Occupied": 1}
    for x in f.scope(i.path, prefix="heads::"):
        for bi2, si2, st in x.statements():
            for pl in ([st["p"]] if st["k"] == "assign" else []):
                for pr in pl["p"]:
                    if pr[0] == "downcast" and pr[2] in ("Vacant", "Occupied"):
                        idx[pr[2]] = pr[1]
    rows = {}
    for case in ("unknown", "Less", "Equal", "Greater"):
        log = []

        def oracle(kind, name, payload, site, case=case):
            if kind in ("cmp", "eq"):
                a2, b2 = str(name), str(payload)
                if {a2, b2} == {"timestamp", "stored"}:
                    o = {"Less": -1, "Equal": 0, "Greater": 1}[case]
                    if a2 == "stored":
                        o = -o
                    return (o == 0) if kind == "eq" else o
                return None
            if kind != "call":
                return None
            t, args, it = payload
            names = [it.tokname(x) for x in args]
            full = (t["f"].get("full") or "") + (t["f"].get("path") or "")
            known = case != "unknown"
            if name == "entry" and "Map" in full:
                return E.Adt("std::collections::btree_map::Entry", idx["Occupied"] if known else idx["Vacant"], {0: E.Tok("entry")})
            if name == "and_modify":
                if known:
                    it.apply(args[1], [E.href("stored")])
                return args[0]
            if name in ("or_insert", "or_insert_with"):
                if known:
                    return E.href("stored")
                v = args[1] if name == "or_insert" else it.apply(args[1], [])
                log.append(("insert", it.tokname(v)))
                it.heap["stored"] = it.deref_val(v)
                return E.href("stored")
            if name in ("get_mut", "into_mut", "get") and "OccupiedEntry" in full:
                return E.href("stored")
            if name == "insert" and ("VacantEntry" in full or "OccupiedEntry" in full):
                log.append(("insert", names[1]))
                old = it.heap.get("stored")
                it.heap["stored"] = it.deref_val(args[1])
                return E.href("stored") if "VacantEntry" in full else (old or E.TOP)
            if "Map" in full and "Entry" not in full:
                if name in ("get", "get_mut"):
                    return E.Some(E.href("stored")) if known else E.NONE
                if name == "contains_key":
                    return E.Int(1 if known else 0)
                if name == "insert":
                    log.append(("insert", names[2] if len(names) > 2 else "?"))
                    old = it.heap.get("stored")
                    it.heap["stored"] = it.deref_val(args[2])
                    return E.Some(old) if known else E.NONE
            return None
        heap = {"self": E.Tok("heads")}
        if case != "unknown":
            heap["stored"] = E.Tok("stored")
        try:
            ret, hp, ev = E.run(f, i.path, [E.href("self"), E.Tok("author"), E.Tok("timestamp")], heap, oracle)
            rows[case] = E.describe(hp.get("stored"), f) if hp.get("stored") is not None else "nothing stored"
        except E.Unsupported as e:
            rows[case] = "UNSUPPORTED-FORM: %s" % e
    okm = rows.get("unknown") == "timestamp" and rows.get("Less") == "stored" and rows.get("Greater") == "timestamp" and rows.get("Equal") in ("stored", "timestamp")
    ctx.check(okm, "C13.R2", i.path, "insert-keeps-maximum",
              "head stored for the author after insert(author, timestamp), by (author known?, cmp(timestamp, stored)): %s; spec: the new timestamp for an unknown author, otherwise the maximum" % rows, i.sp)
    ctx.floor("C13.R2", 7)


def eval_encode_heads(f, heads, limit):
    """AuthorHeads::encode evaluated (K6' with abstract collections) on `heads` = [(author, timestamp)] and a size
    limit; the size model is 1 + 40 per pair. Returns (rendered result, rendered list handed to the serialiser)."""
    from . import feval as E, coll

    def sort_key(it, v):
        d = it.resolve(v)
        if d and d[0] == "tuple":
            return tuple((0, x[1]) if E.is_int(x) else (1, E.describe(x, f)) for x in d[1])
        return ((1, E.describe(d, f)),)
    C = coll.Collections(f, sort_key=sort_key, size_of=lambda it, items: 1 + 40 * len(items))
    out = {}

    def oracle(kind, name, payload, site):
        if kind != "call":
            return None
        t, args, it = payload
        names = [it.tokname(a) for a in args]
        if callee_matches(t, r"heads::AuthorHeads::iter$") or (name in ("iter", "into_iter") and names and names[0] in ("heads", "heads.heads")):
            items = []
            for i, (a, ts) in enumerate(heads):
                it.heap["a%d" % i] = E.Tok(a)
                it.heap["t%d" % i] = E.Int(ts)
                items.append(("tuple", [E.href("a%d" % i), E.href("t%d" % i)]))
            return coll.seq("iter", items)
        r = C.handle(kind, name, payload, site)
        if r is not None:
            return r
        if name in ("to_stdvec", "to_allocvec", "to_vec") and callee_matches(t, r"postcard"):
            out["encoded"] = coll.render(it, args[0], f)
            return E.Ok(E.Tok("bytes"))
        return None
    lim = E.Some(E.Int(limit)) if limit is not None else E.NONE
    try:
        ret, it = E.run_it(f, "heads::AuthorHeads::encode", [E.href("self"), lim], {"self": E.Tok("heads")}, oracle)
        return E.describe(ret, f), out.get("encoded")
    except E.Unsupported as e:
        return "UNSUPPORTED-FORM: %s" % e, out.get("encoded")


def r3(ctx):
    f = ctx.facts
    e = f.body("heads::AuthorHeads::encode")
    ctx.touch(*f.scope(e.path, prefix="heads::"))
    tables_ = {
        "two-authors-share-a-timestamp": [("alice", 5), ("bob", 5), ("carol", 3), ("dave", 9)],
        "ascending": [("a", 1), ("b", 2), ("c", 3)],
        "single": [("a", 7)],
        "empty": [],
    }
    bad = []
    n = 0
    for tname, heads in tables_.items():
        newest_first = sorted(heads, key=lambda x: -x[1])
        for limit in (None, 0, 1, 40, 41, 80, 81, 100, 121, 161, 10000):
            n += 1
            got, enc = eval_encode_heads(f, heads, limit)
            k = len(heads) if limit is None else max(0, min(len(heads), (limit - 1) // 40))
            want_ts = [ts for _, ts in newest_first[:k]]
            want_set = None
            if enc is not None:
                import re as _re
                pairs = _re.findall(r"\((\d+),(\w+)\)", enc)
                got_ts = [int(x) for x, _ in pairs]
                got_auth = [y for _, y in pairs]
                # which authors: any choice among equal timestamps is fine, but no author twice and only authors of the table with their own timestamp
                valid = len(set(got_auth)) == len(got_auth) and all((a, t) in heads for t, a in zip(got_ts, got_auth))
            else:
                got_ts, valid = None, False
            if not (got == "Ok(bytes)" and got_ts == want_ts and valid):
                bad.append("%s, limit %s: %s encodes %s; spec: the %d newest heads, newest first (timestamps %s), each author once" % (tname, limit, got, enc, k, want_ts))
    ctx.check(not bad, "C13.R3", e.path, "bounded-newest-first-encoding",
              "encode evaluated on %d (heads table, size limit) cells with the size model 1 + 40 per pair; deviating: %s; spec: all heads when unlimited (authors sharing a timestamp are all kept), "
              "otherwise the longest newest-first prefix that fits the limit" % (n, bad[:3]), e.sp)
    ctx.check(n >= 40, "C13.R3", e.path, "bounded-newest-first-encoding.cells", "%d cells" % n, e.sp)
    # decode inserts every decoded pair
    d = f.body("heads::AuthorHeads::decode")
    ctx.touch(d)
    ins = [t for x in f.scope(d.path, prefix="heads::") for _, t in x.calls() if callee_matches(t, r"heads::AuthorHeads::insert$")]
    ctx.check(len(ins) == 1, "C13.R3", d.path, "decode-inserts-each-pair", "decode feeds every decoded pair to insert", d.sp)
    ctx.floor("C13.R3", 3)


def r4(ctx):
    C16.r1(ctx, rule="C13.R4", only={LPA})


def r5(ctx):
    """the heads rebuilt by migration 001 are the greatest timestamps (shared with C18.R2)"""
    from . import C18
    sub = type(ctx)(ctx.prop, ctx.tier, ctx.facts, ctx.cfg)
    C18.r2(sub)
    n = 0
    for o in sub.obligations:
        if ("heads-rebuilt" not in o["key"] and "entry_put[" not in o["key"]) or "below-head" in o["key"]:
            continue      # (the key a head names is C18's business: C13 speaks about timestamps)
        o = dict(o)
        o["key"] = o["key"].replace("C18.R2", "C13.R5")
        o["rule"] = "C13.R5"
        ctx.obligations.append(o)
        n += 1
        if o["status"] != "holds":
            ctx.violations.append(o)
    ctx.analysed_bodies |= sub.analysed_bodies
    ctx.floor("C13.R5", 5)


def r6(ctx):
    """news detection through the asynchronous handle is the store's has_news_for_us on the request's heads"""
    from . import actorfw
    actorfw.claim(ctx, "C13.R6", handlers=("HasNewsForUs",), clients=("has_news_for_us",), floor=3)


def r7(ctx):
    """what is done with the verdict: the live actor asks the sender of a head report for a sync exactly when the store flagged
    the report as news"""
    from . import livefw
    livefw.check_sync_report(ctx, "C13.R7")
    ctx.floor("C13.R7", 5)


def r8(ctx):
    """whose heads are reported: the scan behind get_latest_for_each_author / has_news_for_us, evaluated on a concrete document id
    and decided on sample rows of the shared heads table - every (this document, author) row lies inside the scanned range, no
    row of a neighbouring document does (a head of another document would hide news, or invent an author)"""
    import re as _re
    from . import feval as E, tables as T, keyrange
    f = ctx.facts
    types = T.table_types(f)
    paths = [p_ for p_ in f.bodies if _re.fullmatch(r"store::fs::LatestIterator(::<.*>)?::new", p_)]
    if len(paths) != 1:
        raise mir.AnchorMissing("LatestIterator::new not found (%s)" % paths)
    b = f.body(paths[0])
    ctx.touch(b)
    authors = [bytes([0]) * 32, bytes([0]) * 31 + b"\x01", bytes([0x7f]) * 32, bytes([255]) * 31 + b"\xfe", bytes([255]) * 32]
    for ns_byte in (7, 0, 255):
        log = []

        def oracle(kind, name, payload, site, ns_byte=ns_byte):
            if kind != "call":
                return None
            t, a, it = payload
            names = [it.tokname(x).strip("&*") for x in a]
            ct = T.call_table(t, types)
            if ct and ct[1] in ("range", "iter"):
                log.append((ct[0], E.describe(it.resolve(a[1]), f) if len(a) > 1 else "RangeFull"))
                return E.Ok(E.Tok("range"))
            if name in ("as_bytes", "to_bytes") and names and names[0] == "ns":
                return E.Tok("id:" + (bytes([ns_byte]) * 32).hex())
            return None
        try:
            ret, hp, ev = E.run(f, b.path, [E.href("table"), E.Tok("ns")], {"table": E.Tok("heads-table")}, oracle,
                                inline=tuple(p_ for p_ in f.bodies if p_.startswith("store::fs::bounds::")))
            got = E.describe(ret, f)
        except E.Unsupported as e:
            got = "UNSUPPORTED-FORM: %s" % e
        ns = bytes([ns_byte]) * 32
        below = (bytes([ns_byte]) * 31 + bytes([ns_byte - 1])) if ns_byte > 0 else None
        above = (bytes([ns_byte]) * 31 + bytes([ns_byte + 1])) if ns_byte < 255 else None
        ok = got.startswith("Ok(") and len(log) == 1 and log[0][0] == "latest_per_author"
        det = "returns %s, scans %s" % (got, log)
        if ok:
            try:
                rng = keyrange.bounds(log[0][1])
                missing = [(ns, a) for a in authors if not keyrange.inside((ns, a), rng)]
                foreign = [(n2, a) for n2 in (below, above) if n2 is not None for a in authors if keyrange.inside((n2, a), rng)]
                ok = not missing and not foreign
                det += "; head rows of this document outside the scan: %s; head rows of neighbouring documents inside: %s" % (
                    [tuple(x.hex()[:8] for x in m) for m in missing[:3]], [tuple(x.hex()[-8:] for x in m) for m in foreign[:3]])
            except ValueError as e:
                ok = False
                det += "; UNSUPPORTED-FORM: cannot read the bounds (%s)" % e
        ctx.check(ok, "C13.R8", b.path, "scan-is-exactly-this-document's-heads[ns=%02x..]" % ns_byte, det, b.sp)
    ctx.floor("C13.R8", 3)


def r9(ctx):
    """the heads a node reports after a session (the payload of its sync report, against which neighbours run their news
    detection) are collected from every entry the session received - deletion markers included: they are entries of the author
    like any other (the accounting rule of C01.R3)"""
    from . import C01
    sub = type(ctx)(ctx.prop, ctx.tier, ctx.facts, ctx.cfg)
    C01.r3(sub)
    n = 0
    for o in sub.obligations:
        if "replica=open" not in o["key"]:
            continue
        o = dict(o)
        o["key"] = o["key"].replace("C01.R3", "C13.R9")
        o["rule"] = "C13.R9"
        ctx.obligations.append(o)
        n += 1
        if o["status"] != "holds":
            ctx.violations.append(o)
    ctx.analysed_bodies |= sub.analysed_bodies
    ctx.floor("C13.R9", 3)


def r10(ctx):
    """the heads table of a store written in the older file format survives the format migration that runs on open"""
    from . import redbmig
    redbmig.check(ctx, "C13.R10", only={"latest-by-author-1", "records-1"})
    ctx.floor("C13.R10", 1)


def r11(ctx):
    """the scans behind the head queries and behind the removal of a document end at bounds computed by the two byte primitives
    (increment_by_one, prefix_successor), evaluated on concrete byte strings (= C02.R3)"""
    from . import C02
    ctx.share("C13.R11", C02.r3, "C02.R3", floor=2)

def r12(ctx):
    """a head names an entry that is held: what an insert removes is decided by the newest-wins predicate for every row it is
    asked about - deletion markers included - and by nothing else (the prune primitive of C02.R1; an entry removed behind the
    back of the head bookkeeping leaves a head no held entry has)"""
    from . import C02
    ctx.share("C13.R12", C02.r1, "C02.R1", keep=lambda k: "predicate-decides" in k or "prune-predicate" in k, floor=2)

def r13(ctx):
    """"the greatest timestamp among that author's entries currently in the replica": the heads a report is compared with are read from
    the table on every call - no per-document memo in the store outlives the document (C16.R15)"""
    from . import C16
    C16.mem_state(ctx, "C13.R13")
    ctx.floor("C13.R13", 2)

def r14(ctx):
    """"the greatest timestamp among that author's entries currently in the replica": the head only rises (R1), so an older entry must
    never replace a newer one at the same key - also at the empty key: the parent lookup of C02.R2b (C13-14: parents() skipped the
    empty key, an older entry overwrote the newer one while the head stayed)"""
    from . import C02
    ctx.share("C13.R14", C02.r2, "C02.R2", keep=lambda k: "parents" in k or "empty-key" in k, floor=3)

def run(ctx):
    ctx.run_rule("C13.R1", r1)
    ctx.run_rule("C13.R2", r2)
    ctx.run_rule("C13.R3", r3)
    ctx.run_rule("C13.R4", r4)
    ctx.run_rule("C13.R5", r5)
    ctx.run_rule("C13.R6", r6)
    ctx.run_rule("C13.R7", r7)
    ctx.run_rule("C13.R8", r8)
    ctx.run_rule("C13.R9", r9)
    ctx.run_rule("C13.R10", r10)
    ctx.run_rule("C13.R11", r11)
    ctx.run_rule("C13.R12", r12)
    ctx.run_rule("C13.R13", r13)
    ctx.run_rule("C13.R14", r14)

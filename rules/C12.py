"""C12 — subscribers see exactly one event per entry that actually entered the replica."""
import re
from . import mir
from .mir import trace, origin_summary, callee_matches
from .common import find_calls, one_call, call_outcomes, follow_value, leaves
from . import paths as P
from .C03 import production_closures, PM, IE

EXPLANATION = (
    'Decides structural necessary conditions of C12 from MIR: (R1) sync::Subscribers::send/send_with are called only in '
    "Replica::insert_entry, dominated by the Inserted edge of put's outcome, and in the on-insert callback of "
    'sync_process_message; in process_message the on-insert callback is dominated by the Inserted edge of put, which is '
    'dominated by validate_cb == true; (R2) exactly one announce site per ingress and no path from the Inserted edge to a '
    'return or to the next entry bypasses it; (R3) payload provenance: entry = the entry passed to put, from = the '
    'providing peer, remote_content_status = the status received with it, should_download = DownloadPolicy::matches(policy '
    'of this namespace, that entry), LocalInsert only under origin Local; (R4) unsubscribe retains exactly the senders that'
    ' are not the same channel and the per-subscriber delivery future, evaluated with awaits driven to completion, keeps a '
    'subscriber whose send of this event succeeded (a closed one may be dropped), the list being rebuilt from the previous '
    'senders. (R5) the meaning of the policy the flag is computed by: DownloadPolicy::matches and FilterKind::matches evaluated (shared with C15.R1). (R6) the store actor forwards InsertRemote / SyncProcessMessage / Subscribe / Unsubscribe one to one (the store-actor handler evaluated with the fields of the request as named tokens and gates / store / replica calls answered by an oracle, each step also failing in turn: the own fields of the request reach the core function in order on the addressed document, nothing is carried out after a failed step, the reply is the result of that function; the SyncHandle method evaluated: one request of its own kind, addressed to its namespace argument, each field one of its own parameters, the reply of the actor returned); insert_remote_entry builds origin Sync { from, remote_content_status } from its own arguments. (R7) who-may-write: the open replica info / subscriber list is never assigned or mem-replaced after the replica was opened. NOT decided: order of delivery across subscribers under back-pressure.'
)
ASSUMPTIONS = ["async_channel delivers a sent event exactly once to its receiver", "generic callbacks bound to the closures of the unique production call"]


SEND = r"^sync::Subscribers::send(_with)?$"
VIEW_ENTRY = re.compile(mir.VIEW.pattern[:-2] + r"|entry)$")


EXPLANATION += ' (R3, round 8) the event payload is decided by evaluating Replica::insert_remote_entry / insert_entry and the reconciliation callbacks (one event, carrying that entry, this document, the providing peer, its content status and policy.matches(entry), exactly when the store reports it inserted). (R8) the last hop to an API subscriber (LiveEvent::from_replica_event, Engine::subscribe). (R9) a refused drop of the document leaves its subscribers subscribed (doc_drop evaluated; reported F29, fixed).'
EXPLANATION += ' (R10, round 9) = C14.R11: the OpenOpts builders keep the field they do not set (a subscriber handed over with the open request is registered whatever the order of the builders).'
EXPLANATION += " (R11, round 10) nothing in the crate calls close() on a channel of replica events (senders are dropped, never closed; the store actor's inbox close is the positive example)."
EXPLANATION += ' (R12, round 11) the content-status callback the actor was spawned with is kept as given and installed in every replica it opens.'
EXPLANATION += " (R13, round 12) = C06.R4's failing-body rows: an entry whose event went out stays applied when a later request fails (no second event on redelivery)."
EXPLANATION += " (R14, round 12) the node's content-status callback evaluated on every answer of the blob store (variant names of the foreign BlobStatus from the type-checked program): complete = Complete, partial = Incomplete, absent = Missing, a failing lookup never Complete; the hash asked about is the one given."


def _ins_edges(f, b, put_bi):
    """edges on which put's outcome is InsertOutcome::Inserted (incl. matches!/if-let temporaries)"""
    from .common import variant_edges
    IO = [v["name"] for v in f.adt("ranger::InsertOutcome")["variants"]]
    ins_idx = IO.index("Inserted")
    edges = [e for e in variant_edges(b, lambda ty: ty.endswith("ranger::InsertOutcome"), ins_idx) if b.dominates(put_bi, e[0])]
    if not edges:
        raise mir.AnchorMissing("%s: no test of put's InsertOutcome found" % b.path)
    return edges


def r1(ctx):
    f = ctx.facts
    sites = []
    for b in f.bodies.values():
        for bi, t in b.calls():
            if any(re.search(SEND, p) for p in mir.callee_paths(t)):
                sites.append((b, bi, t))
    sb, sbi, st, cl = production_closures(f)
    on_insert_family = {x.path for x in f.family(cl[1])}
    allowed = {IE, "sync::Subscribers::send_with::{closure#0}"} | on_insert_family
    for b, bi, t in sites:
        ctx.touch(b)
        ctx.check(b.path in allowed, "C12.R1", b.path, "send-site.%s" % t["f"].get("name"),
                  "subscriber events are sent only from insert_entry and the on-insert callback of reconciliation", t["sp"])
    if len(sites) < 3:
        raise mir.AnchorMissing("expected >=3 Subscribers::send/send_with call sites, found %d" % len(sites))
    ie = f.body(IE)
    puts = [(bi, t) for bi, t in ie.calls() if t["f"].get("name") == "put"]
    sends = [(bi, t) for bi, t in ie.calls() if any(re.search(SEND, p) for p in mir.callee_paths(t))]
    if len(puts) != 1 or len(sends) != 1:
        ctx.bad("C12.R1", IE, "one-put-one-send", "insert_entry has %d put and %d send sites" % (len(puts), len(sends)), ie.sp)
    else:
        es = _ins_edges(f, ie, puts[0][0])
        ok = any(ie.edge_dominates(e[0], e[1], sends[0][0]) for e in es)
        ctx.check(ok, "C12.R1", IE, "send-dominated-by-Inserted", "the event is sent only on the Inserted edge of put's outcome (a superseded entry produces no event)", sends[0][1]["sp"])
    pm = f.body(PM)
    ctx.touch(pm)
    oic = [(bi, t) for bi, t in pm.calls() if t["f"].get("full", "").startswith("<F2 as ")]
    pputs = [(bi, t) for bi, t in pm.calls() if t["f"].get("name") == "put"]
    vcalls = [(bi, t) for bi, t in pm.calls() if t["f"].get("name") == "call" and t["f"].get("full", "").startswith("<F as ")]
    if len(oic) != 1 or len(pputs) != 1 or len(vcalls) != 1:
        raise mir.AnchorMissing("process_message: expected one validate call, one put, one on_insert call (found %d/%d/%d)" % (len(vcalls), len(pputs), len(oic)))
    es = _ins_edges(f, pm, pputs[0][0])
    ctx.check(any(pm.edge_dominates(e[0], e[1], oic[0][0]) for e in es), "C12.R1", PM, "on_insert-dominated-by-Inserted", "on_insert_cb is called only on the Inserted edge of put's outcome", oic[0][1]["sp"])
    ve = call_outcomes(pm, vcalls[0][0]).get("true")
    ctx.check(bool(ve) and pm.edge_dominates(ve[0], ve[1], pputs[0][0]), "C12.R1", PM, "put-dominated-by-validate", "put only after validate_cb returned true", pputs[0][1]["sp"])
    ctx.floor("C12.R1", 6)


def r2(ctx):
    f = ctx.facts
    for path, is_send in ((IE, lambda t: any(re.search(SEND, p) for p in mir.callee_paths(t))),
                          (PM, lambda t: t["f"].get("full", "").startswith("<F2 as "))):
        b = f.body(path)
        puts = [(bi, t) for bi, t in b.calls() if t["f"].get("name") == "put"]
        sends = [(bi, t) for bi, t in b.calls() if is_send(t)]
        if len(puts) != 1:
            raise mir.AnchorMissing("%s: expected one put" % path)
        ctx.check(len(sends) == 1, "C12.R2", path, "exactly-one-announce-site", "%d announce sites" % len(sends), b.sp)
        if len(sends) != 1:
            continue
        es = [e for e in _ins_edges(f, b, puts[0][0]) if b.edge_dominates(e[0], e[1], sends[0][0])] or _ins_edges(f, b, puts[0][0])
        region = b.reach_from_edges([e[1] for e in es], avoid={sends[0][0]})
        exits = [x for x in region if b.blocks[x]["t"]["k"] == "return"]
        back = puts[0][0] in region
        ctx.check(not exits and not back, "C12.R2", path, "no-path-around-the-announce",
                  "every path from the Inserted edge passes the announce site before returning or handling the next entry" if not exits and not back else
                  "an inserted entry can go unannounced: a path from the Inserted edge reaches %s without the announce" % ("a return" if exits else "the next entry"), sends[0][1]["sp"])
        again = b.reach_from_edges(b.succ()[sends[0][0]], avoid={puts[0][0]})
        ctx.check(sends[0][0] not in again, "C12.R2", path, "announce-at-most-once-per-insert", "the announce site cannot repeat without another put", sends[0][1]["sp"])
    ctx.floor("C12.R2", 6)


def _agg_fields(s):
    names = s["r"][1][4]
    return dict(zip(names, s["r"][2]))


def r3(ctx):
    """what an event carries: the two ingress functions of the replica and the callbacks of the reconciliation path evaluated
    (rules/syncstep.py); replaces the provenance rule over the place where the Event aggregate is built, which reported a shared
    `remote_insert_event(..)` helper"""
    f = ctx.facts
    from . import syncstep
    syncstep.check_insert_paths(ctx, "C12.R3")
    syncstep.check_callbacks(ctx, "C12.R3")
    pm = f.body(PM)
    oic = [t for _, t in pm.calls() if t["f"].get("full", "").startswith("<F2 as ")][0]
    putc = [t for _, t in pm.calls() if t["f"].get("name") == "put"][0]
    a_ent = set()
    for o in trace(pm, oic["a"][1]):
        if o.kind == "agg" and o.data[0][0] == "tuple" and len(o.data[1]) >= 2:
            a_ent |= {origin_summary(x) for x in trace(pm, o.data[1][1])}
    p_ent = {origin_summary(o) for o in trace(pm, putc["a"][1])}
    ctx.check(bool(a_ent) and a_ent == p_ent, "C12.R3", PM, "announced-entry-is-stored-entry", "on_insert entry %s / put entry %s" % (sorted(a_ent), sorted(p_ent)), oic["sp"])
    ctx.floor("C12.R3", 18)


def r4(ctx):
    f = ctx.facts
    u = f.body("sync::Subscribers::unsubscribe")
    ctx.touch(u)
    rt = [t for _, t in u.calls() if t["f"].get("name") == "retain"]
    ok = False
    det = "no retain call"
    if len(rt) == 1:
        cl = [d for d in rt[0]["f"]["tdefs"] if d and "{closure" in d]
        if cl:
            cb = f.body(cl[0])
            ctx.touch(cb)
            sc = [(bi, t) for bi, t in cb.calls() if t["f"].get("name") == "same_channel"]
            neg = [s for _, _, s in cb.statements() if s["k"] == "assign" and s["p"]["l"] == 0 and s["r"][0] == "un" and s["r"][1] == "Not"]
            ok = len(sc) == 1 and len(neg) == 1 and neg[0]["r"][2][1]["l"] == sc[0][1]["d"]["l"]
            det = "retain(|s| !same_channel(s, sender)): same_channel calls %d, negated result returned %s" % (len(sc), bool(neg))
    ctx.check(ok, "C12.R4", u.path, "retains-the-other-senders", det, u.sp)
    from .common import chain_has_call, outer_leaves
    s = f.body("sync::Subscribers::send")
    sc = f.scope(s.path, prefix="sync::")
    ctx.touch(*sc)
    sends = [(x, bi, t) for x in sc for bi, t in x.calls() if t["f"].get("name") == "send" and callee_matches(t, r"async_channel::Sender")]
    ok = len(sends) == 1
    det = "%d calls of Sender::send in Subscribers::send and its helpers" % len(sends)
    if ok:
        x, bi, t = sends[0]
        # evaluate the per-subscriber future (K6', awaits driven to completion) for a successful and a failed send
        from . import feval as E
        ctor = f.bodies.get(x.parent) if x.rec.get("closure_kind") == "coroutine" else None
        rows = {}
        awaited = set()
        if ctor is None:
            rows = {"form": "UNSUPPORTED-FORM: Sender::send is not awaited in an async closure / fn"}
        else:
            for res in ("ok", "err"):
                def oracle(kind, name, payload, site, res=res):
                    if kind == "await" and name.startswith("send("):
                        awaited.add(name)
                        return E.Ok(E.UNIT) if res == "ok" else E.Err(E.Tok("closed"))
                    return None
                heap = {}
                try:
                    args = E.default_args(f, ctor.path, heap)
                    out, hp, evs = E.run_async(f, ctor.path, args, heap, oracle)
                    rows[res] = E.describe(out, f)
                except E.Unsupported as e:
                    rows[res] = "UNSUPPORTED-FORM: %s" % e
        sender_names = {n for n in (rows.get("ok") or "").replace("Some(", "").replace(")", "").split(",") if n}
        ok = bool(rows.get("ok", "").startswith("Some(")) and (rows.get("err") == "None" or rows.get("err") == rows.get("ok")) and len(awaited) == 1 and \
            all(a.startswith("send(%s," % sn) and "event" in a for a in awaited for sn in sender_names) and len(sender_names) == 1
        det = "per-subscriber future in %s: send ok -> %s, send failed -> %s; awaited %s (spec: a subscriber whose send of this event succeeded stays subscribed; one whose channel is closed may be dropped - keeping it harms nobody)" % (ctor.path if ctor else x.path, rows.get("ok"), rows.get("err"), sorted(awaited))
    ctx.check(ok, "C12.R4", s.path, "keeps-sender-iff-send-ok", det, s.sp)
    # the subscriber list is rebuilt from the previous list, not cleared
    sb = f.body(s.path + "::{closure#0}")
    ws = [(bi, st) for bi, si, st in sb.statements() if st["k"] == "assign" and st["p"]["p"] and st["p"]["p"][-1][0] == "field" and st["p"]["p"][-1][1] == 0 and not mir.is_noise(st["x"])
          and any(pr[0] == "deref" for pr in st["p"]["p"])]
    okw = False
    if len(ws) == 1:
        st = ws[0][1]
        src = st["r"][1] if st["r"][0] == "use" else None
        okw = src is not None and chain_has_call(sb, src, lambda tt: tt["f"].get("name") in ("take", "replace", "drain", "clone", "iter", "into_iter") and any(
            any(pr[0] == "field" and pr[1] == 0 for pr in o.projs) for a in tt["a"][:1] if a[0] != "const" for o in trace(sb, a)), max_depth=16)
    ctx.check(okw, "C12.R4", s.path, "list-rebuilt-from-previous-senders", "self.0 is assigned once, from a chain that starts at the previous self.0 (%d writes)" % len(ws), s.sp)
    sw = f.body("sync::Subscribers::send_with::{closure#0}")
    ctx.touch(sw)
    ok = any(t["f"].get("name") == "send" for _, t in sw.calls()) and any(t["f"].get("name") == "call_once" for _, t in sw.calls())
    ctx.check(ok, "C12.R4", sw.path, "send_with-sends-the-built-event", "send_with = if !empty { send(f()) }", sw.sp)
    # the gate of the reconciliation path evaluated (K6') on subscriber lists: whenever a live subscriber is registered the
    # event is built once and handed to send() - a subscriber that went away without unsubscribing must not silence the others
    from . import feval as E, coll
    for subs in ([], ["live1"], ["live1", "live2"], ["live1", "closed2"], ["closed1", "live2"], ["closed1", "live2", "closed3"], ["closed1"]):
        log = []
        C = coll.Collections(f)

        def oracle(kind, name, payload, site):
            if kind == "await":
                return E.UNIT if str(name).startswith("fut:") else None
            if kind != "call":
                return None
            t, args, itp = payload
            names = [itp.tokname(a).strip("&*") for a in args]
            if callee_matches(t, r"sync::Subscribers::send$"):
                log.append(("send", names[1]))
                return E.Tok("fut:send")
            if name in ("call_once", "call", "call_mut") and names and names[0] == "build-event":
                log.append(("build",))
                return E.Tok("event")
            if name in ("is_closed",) and names:
                return E.Int(1 if "closed" in names[0] else 0)
            if name in ("receiver_count", "sender_count") and names:
                return E.Int(0 if "closed" in names[0] else 1)
            return C.handle(kind, name, payload, site)
        heap = {"self": E.struct(f, "sync::Subscribers", **{"0": coll.seq("vec", [E.Tok(x) for x in subs])})}
        try:
            ret, hp, evs = E.run_async(f, "sync::Subscribers::send_with", [E.href("self"), E.Tok("build-event")], heap, oracle)
            got = E.describe(ret, f)
        except E.Unsupported as e:
            got = "UNSUPPORTED-FORM: %s" % e
        has_live = any(x.startswith("live") for x in subs)
        okc = got == "()" and ((log == [("build",), ("send", "event")]) if has_live else (log in ([], [("build",), ("send", "event")])))
        ctx.check(okc, "C12.R4", "sync::Subscribers::send_with", "event-reaches-send-while-a-live-subscriber-exists[%s]" % ",".join(subs),
                  "subscribers %s: returns %s, effects %s; spec: %s" % (subs, got, log, "the event is built once and handed to send()" if has_live else "nothing needs to be sent"), sw.sp)
    ctx.floor("C12.R4", 11)


def r5(ctx):
    """what `should_download` is computed by: the policy's meaning (shared with C15.R1) - the flag on a RemoteInsert event is
    DownloadPolicy::matches(policy, entry) by R3, so a wrong `matches` is a wrong event"""
    from . import C15
    sub = type(ctx)(ctx.prop, ctx.tier, ctx.facts, ctx.cfg)
    C15.r1(sub)
    for o in sub.obligations:
        o = dict(o)
        o["key"] = o["key"].replace("C15.R1", "C12.R5")
        o["rule"] = "C12.R5"
        ctx.obligations.append(o)
        if o["status"] != "holds":
            ctx.violations.append(o)
    ctx.analysed_bodies |= sub.analysed_bodies
    ctx.floor("C12.R5", 3)


def r6(ctx):
    """the path from the asynchronous handle to the replica: the providing peer, its content status and the subscriber
    channel of a request are the ones the event / the subscription is made of"""
    from . import actorfw
    actorfw.claim(ctx, "C12.R6", handlers=("InsertRemote", "SyncProcessMessage", "Subscribe", "Unsubscribe"), clients=("insert_remote", "sync_process_message", "subscribe", "unsubscribe"))
    actorfw.check_remote_origin(ctx, "C12.R6")
    from . import gossipin
    gossipin.check(ctx, "C12.R6")      # a broadcast entry is applied with the peer that delivered it as the providing peer
    # subscribing through open(OpenOpts::subscribe): the sender is registered whether this open loads the replica or finds it
    # open already (the open/close cells of C14.R3)
    from . import C14
    sub = type(ctx)(ctx.prop, ctx.tier, ctx.facts, ctx.cfg)
    C14.r3(sub)
    for o in sub.obligations:
        if "subscribe=" not in o["key"]:
            continue
        o = dict(o)
        o["key"] = o["key"].replace("C14.R3", "C12.R6")
        o["rule"] = "C12.R6"
        ctx.obligations.append(o)
        if o["status"] != "holds":
            ctx.violations.append(o)
    ctx.analysed_bodies |= sub.analysed_bodies
    ctx.floor("C12.R6", 22)


def r7(ctx):
    """the subscribers of an open replica live in OpenReplica.info (a ReplicaInfo) / ReplicaInfo.subscribers: nothing but the
    subscriber bookkeeping itself may replace them while the replica is open - an assignment of a fresh ReplicaInfo (or of a
    fresh subscriber list) drops every subscriber silently (who-may-write over all bodies, incl. mem::replace / swap / take)"""
    from .common import uses_of_local
    f = ctx.facts
    FIELDS = (("info", "sync::ReplicaInfo"), ("subscribers", "sync::Subscribers"))
    n_cons = 0
    seen_fields = set()
    for b in f.bodies.values():
        if b.rec.get("derived"):
            continue
        for bi, si, s in b.statements():
            if s["k"] != "assign":
                continue
            pp = s["p"]["p"]
            for fname, fty in FIELDS:
                if pp and pp[-1][0] == "field" and pp[-1][2] == fname and len(pp[-1]) > 3 and pp[-1][3] == fty:
                    ctx.bad("C12.R7", b.path, "assigns-%s" % fname, "the open replica's %s is overwritten: its subscribers are dropped without having unsubscribed" % fname, s["sp"])
                r = s["r"]
                if r[0] == "ref" and r[1] == "mut":
                    rp = r[2]["p"]
                    if rp and rp[-1][0] == "field" and rp[-1][2] == fname and len(rp[-1]) > 3 and rp[-1][3] == fty:
                        seen_fields.add(fname)
                        dl = s["p"]["l"]
                        seen = {dl}
                        frontier = [dl]
                        sinks = []
                        while frontier:
                            l = frontier.pop()
                            for ubi, usi, u in uses_of_local(b, l):
                                if usi == "t" and u["k"] == "call":
                                    sinks.append(u)
                                elif usi != "t" and u["k"] == "assign" and not u["p"]["p"] and u["p"]["l"] not in seen:
                                    seen.add(u["p"]["l"])
                                    frontier.append(u["p"]["l"])
                        badk = [u["f"].get("name") for u in sinks if (u["f"].get("name") in ("replace", "swap", "take") and "mem::" in (u["f"].get("path") or "") + (u["f"].get("full") or ""))]
                        ctx.check(not badk, "C12.R7", b.path, "mut-borrow-of-%s-not-replaced" % fname, "&mut %s flows to %s" % (fname, [u["f"].get("name") for u in sinks]), s["sp"])
            r = s["r"]
            if r[0] == "agg" and r[1][0] == "adt" and r[1][1] == "actor::OpenReplica":
                n_cons += 1
                ctx.check(f.only_reached_from(b.path, {"actor::OpenReplicas::open_with"}) or b.path == "actor::OpenReplicas::open_with", "C12.R7", b.path, "constructs-OpenReplica",
                          "the open state of a replica is built only when it is opened", s["sp"])
    if n_cons < 1 or not seen_fields:
        raise mir.AnchorMissing("expected a construction of OpenReplica and a &mut borrow of its info / the subscriber list (found %d, %s)" % (n_cons, sorted(seen_fields)))
    ctx.floor("C12.R7", 2)


def r8(ctx):
    """the last hop to an API subscriber (engine::LiveEvent::from_replica_event, used by Engine::subscribe for every replica
    event) evaluated per event kind: a local insert becomes InsertLocal carrying that entry; a remote insert becomes InsertRemote
    carrying that entry, the providing peer (the key parsed from the event's `from`) and the local content status of *that*
    entry's hash; one API event per replica event, none invented, none swallowed (a peer id that is not a key is reported)"""
    from . import feval as E, coll
    f = ctx.facts
    FRE = "engine::LiveEvent::from_replica_event"
    b = f.body(FRE + "::{closure#0}")
    ctx.touch(b)
    LE = "engine::LiveEvent"
    for evk, key_ok in (("LocalInsert", 1), ("RemoteInsert", 1), ("RemoteInsert", 0)):
        C = coll.Collections(f)
        log = []

        def oracle(kind, name, payload, site):
            if kind == "await":
                if str(name).startswith("fut:status-of"):
                    return E.Tok("status-of(%s)" % str(name)[len("fut:status-of("):-1])
                return None
            if kind != "call":
                return None
            t, args, it = payload
            names = [it.tokname(a).strip("&*") for a in args]
            if name == "from_bytes":
                return E.Ok(E.Tok("key-of(%s)" % names[0])) if key_ok else E.Err(E.Tok("not-a-key"))
            if name in ("into", "from") and len(args) == 1:
                return E.Tok(names[0])
            if name == "content_hash":
                return E.Tok("hash(%s)" % names[0])
            if name in ("call", "call_once", "call_mut") and names and names[0] == "status-cb":
                inner = it.resolve(args[1])
                arg = it.tokname(inner[1][0]) if inner is not None and inner[0] == "tuple" and inner[1] else "?"
                log.append(("status-cb", arg))
                return E.Tok("fut:status-of(%s)" % arg)
            if name in ("deref", "as_ref") and names and names[0] == "status-cb":
                return args[0]
            return C.handle(kind, name, payload, site)
        if evk == "LocalInsert":
            ev = E.variant(f, "sync::Event", "LocalInsert", namespace=E.Tok("ns"), entry=E.Tok("the-entry"))
        else:
            ev = E.variant(f, "sync::Event", "RemoteInsert", namespace=E.Tok("ns"), entry=E.Tok("the-entry"), **{"from": E.Tok("peer-bytes")}, should_download=E.Tok("flag"), remote_content_status=E.Tok("remote-status"))
        key = "api-event[%s%s]" % (evk, "" if key_ok else ",peer-id-not-a-key")
        try:
            ret, hp, evs = E.run_async(f, FRE, [ev, E.href("cb")], {"cb": E.Tok("status-cb")}, oracle)
            it2 = E.Interp(f)
            it2.heap = hp
            r = it2.resolve(ret)
            got = E.describe(r, f)
            fields = None
            if r is not None and r[0] == "adt" and r[1] == E.RESULT and r[2] == 0:
                v = it2.resolve(r[3][0])
                var = f.adt(LE)["variants"][v[2]]
                fields = (var["name"], {fd["name"]: E.describe(it2.resolve(v[3].get(i)), f) for i, fd in enumerate(var["fields"])})
        except E.Unsupported as e:
            ctx.bad("C12.R8", FRE, key, "UNSUPPORTED-FORM: %s" % e, b.sp)
            continue
        if evk == "LocalInsert":
            ok = fields == ("InsertLocal", {"entry": "the-entry"})
            spec = "InsertLocal { that entry }"
        elif key_ok:
            ok = fields == ("InsertRemote", {"from": "key-of(peer-bytes)", "entry": "the-entry", "content_status": "status-of(hash(the-entry))"})
            spec = "InsertRemote { from: the providing peer, that entry, the local status of that entry's content }"
        else:
            ok = got.startswith("Err")
            spec = "a reported error"
        ctx.check(ok, "C12.R8", FRE, key, "returns %s %s; spec %s" % (got[:60], fields, spec), b.sp)
    # Engine::subscribe: the replica's events reach the caller through from_replica_event, for the document asked for
    sub = "engine::Engine::subscribe"
    fam = f.family(sub + "::{closure#0}") if hasattr(f, "family") else []
    calls = [(x, t) for x in fam for _, t in x.calls() if callee_matches(t, r"engine::LiveEvent::from_replica_event$")]
    subs = [(x, t) for x in fam for _, t in x.calls() if callee_matches(t, r"actor::SyncHandle::subscribe$")]
    ctx.touch(*fam)
    ok = len(calls) == 1 and len(subs) == 1
    det = "%d conversions through from_replica_event, %d subscriptions at the store actor" % (len(calls), len(subs))
    if ok:
        ns = {origin_summary(o) for o in trace(subs[0][0], subs[0][1]["a"][1])}
        ok = ns in ({"upvar:namespace"}, {"arg:namespace"})
        det += "; subscribed document: %s" % sorted(ns)
    ctx.check(ok, "C12.R8", sub, "replica-events-converted-one-to-one", det, f.body(sub).sp)
    dropping = sorted({t["f"].get("name") for x in fam for _, t in x.calls() if t["f"].get("name") in ("skip", "take", "filter", "filter_map", "step_by", "skip_while", "take_while", "take_until", "nth", "last", "dedup", "chunks", "ready_chunks", "peekable")
                       and not mir.is_noise(t.get("x"))})
    ctx.check(not dropping, "C12.R8", sub, "no-event-dropping-adaptor", "stream adaptors that drop, cut or merge elements between the subscription channels and the caller: %s; spec: none (one API event per event)" % dropping, f.body(sub).sp)
    ctx.floor("C12.R8", 5)


def r9(ctx):
    """a refused drop of the document leaves its subscribers subscribed (the API handler `doc_drop` evaluated; reports F29)"""
    from . import apifw
    apifw.check_refused_drop_keeps_subscribers(ctx, "C12.R9")
    ctx.floor("C12.R9", 2)


def r10(ctx):
    """a subscriber handed over with the open request is registered whatever the order of the option builders (= C14.R11)"""
    from . import C14
    C14.open_opts_builders(ctx, "C12.R10")
    ctx.floor("C12.R10", 2)

def r11(ctx):
    """"unsubscribing or dropping one subscriber does not affect the others" - nor does closing a document: the library only ever
    *drops* its clone of a subscriber's sender. `Sender::close()` closes the channel for every clone - the same sender may be
    subscribed to other documents (the engine's own replica-event sender is) - so nothing in the crate calls it (or
    `Receiver::close()` of an event channel) on a channel of sync::Event; the detector must see the one legitimate close of an
    async_channel endpoint in the crate, the store actor's inbox, or it fails closed"""
    f = ctx.facts
    seen_inbox = 0
    bad = []
    for b in f.bodies.values():
        if b.rec.get("derived"):
            continue
        for bi, t in b.calls():
            if t["f"].get("name") != "close" or mir.is_noise(t.get("x")):
                continue
            full = (t["f"].get("full") or "") + " " + (t["f"].get("res") or "")
            if "async_channel" not in full:
                continue
            if "sync::Event" in full:
                bad.append((b, t))
            elif "actor::Action" in full:
                seen_inbox += 1
    if seen_inbox < 1:
        raise mir.AnchorMissing("the store actor's inbox close was not found: the detector no longer sees close() on async_channel endpoints")
    for b, t in bad:
        ctx.bad("C12.R11", b.rec.get("root") or b.path, "closes-a-subscriber-channel", "close() on a channel of replica events: every clone of that sender - also the one subscribed to another document - stops receiving", t["sp"])
    ctx.ok("C12.R11", "crate", "subscriber-channels-are-dropped-never-closed", "%d close() calls on event channels; inbox close seen %d time(s)" % (len(bad), seen_inbox), None)
    ctx.floor("C12.R11", 1)

def r12(ctx):
    """"its content status": the status an entry is sent with is what the node's content-status callback says *now* - the store
    actor keeps the callback it was spawned with as given (no wrapper that remembers or rewrites answers) and installs it in
    every replica it opens"""
    f = ctx.facts
    sp = f.body("actor::SyncHandle::spawn")
    ctx.touch(sp)
    aggs = [s0 for _, _, s0 in sp.statements() if s0["k"] == "assign" and s0["r"][0] == "agg" and s0["r"][1][0] == "adt" and s0["r"][1][1] == "actor::Actor"]
    ok, det = False, "%d constructions of Actor in SyncHandle::spawn" % len(aggs)
    if len(aggs) == 1:
        names = aggs[0]["r"][1][4]
        if "content_status_callback" in names:
            op = aggs[0]["r"][2][names.index("content_status_callback")]
            org = {origin_summary(o) for o in trace(sp, op, through_calls=False)}
            ok = org == {"arg:content_status_callback"}
            det = "Actor.content_status_callback derives from %s" % sorted(org)
    ctx.check(ok, "C12.R12", sp.path, "content-status-callback-kept-as-given", det + "; spec: the parameter itself", sp.sp)
    # ... and every replica the actor opens gets that callback
    setters = [(b, t) for b in f.bodies.values() if b.path.startswith("actor::") for _, t in b.calls() if callee_matches(t, r"sync::ReplicaInfo::set_content_status_callback$")]
    okc = bool(setters)
    detc = []
    for b, t in setters:
        org = {origin_summary(o) for o in trace(b, t["a"][1])}
        fp = {".".join(mir.field_path(o)) for o in trace(b, t["a"][1])}
        good = any("content_status_callback" in x for x in org | fp) or any("upvar" in x or "arg" in x for x in org)
        okc = okc and good
        detc.append("%s <- %s" % (b.path.split("::")[-1], sorted(org | fp)))
    ctx.check(okc, "C12.R12", "actor::Actor::open", "replicas-get-the-actor's-callback", "; ".join(detc) or "no call of set_content_status_callback in the actor", None)
    ctx.floor("C12.R12", 2)

def r13(ctx):
    """"every entry that is applied to a replica produces exactly one insert event": an entry whose event went out stays applied - a
    later request that fails does not roll the shared write transaction back (it would make a redelivery of the entry a second
    insert with a second event): the failing-body rows of C06.R4"""
    from . import C06
    C06.share_failing_body(ctx, "C12.R13")

def r14(ctx):
    """"marked ... with the providing peer and its content status": the node's content-status callback (the future built in
    Engine::spawn - found by what it does: it is the one that converts a blob status) evaluated on every answer of the blob store:
    it asks the blob store about the hash it was given, and a complete blob is Complete, a partial one Incomplete, an absent one
    Missing; a failing lookup claims nothing (anything but Complete). The variant names of the foreign BlobStatus come from the
    type-checked program (driver record `fenum`), not from the order of the match arms."""
    from . import feval as E
    f = ctx.facts
    cands = [b for b in f.bodies.values() if b.path.startswith("engine::") and b.rec.get("closure_kind") == "coroutine"
             and "ContentStatus" in b.locals[0]["ty"]
             and any(callee_matches(t, r"engine::entry_to_content_status$") or (t["f"].get("name") == "status" and "Blobs" in (t["f"].get("full") or "")) for _, t in b.calls())]
    if len(cands) != 1:
        raise mir.AnchorMissing("expected one future under engine:: that asks the blob store for a blob's status, found %s" % [b.path for b in cands])
    b = cands[0]
    ctx.touch(b)
    BS = [p for p in f.fenums if p.endswith("::BlobStatus")]
    if len(BS) != 1:
        raise mir.AnchorMissing("foreign enum BlobStatus not among the driver's fenum records: %s" % BS)
    discr = {v["name"]: v["discr"] for v in f.fenums[BS[0]]}
    want = {"Complete": ("Complete",), "Partial": ("Incomplete",), "NotFound": ("Missing",), "lookup-fails": ("Missing", "Incomplete")}
    if not set(want) - {"lookup-fails"} <= set(discr):
        raise mir.AnchorMissing("BlobStatus has variants %s" % sorted(discr))
    for cell in ("Complete", "Partial", "NotFound", "lookup-fails"):
        asked = []

        def oracle(kind, name, payload, site, cell=cell):
            if kind == "await":
                if str(name).startswith("fut:status"):
                    if cell == "lookup-fails":
                        return E.Err(E.Tok("rpc-error"))
                    return E.Ok(("adt", BS[0], discr[cell], {0: E.Tok("size")}))
                return None
            if kind == "call":
                t, args, it = payload
                if name == "status":
                    asked.append([it.tokname(a).strip("&*") for a in args][1:])
                    return E.Tok("fut:status")
                if name == "clone" and len(args) == 1:
                    return args[0]
            return None
        try:
            out, it = E.run_coroutine(f, b.path, {}, {}, oracle)
            got = E.describe(it.resolve(out), f)
        except E.Unsupported as e:
            got = "UNSUPPORTED-FORM: %s" % e
        ok = got in want[cell] and asked == [["hash"]]
        ctx.check(ok, "C12.R14", b.path, "content-status[%s]" % cell, "answers %s after asking the blob store about %s; spec: %s for the hash given" % (got, asked, " or ".join(want[cell])), b.sp)
    ctx.floor("C12.R14", 4)

def run(ctx):
    ctx.run_rule("C12.R1", r1)
    ctx.run_rule("C12.R2", r2)
    ctx.run_rule("C12.R3", r3)
    ctx.run_rule("C12.R4", r4)
    ctx.run_rule("C12.R5", r5)
    ctx.run_rule("C12.R6", r6)
    ctx.run_rule("C12.R7", r7)
    ctx.run_rule("C12.R8", r8)
    ctx.run_rule("C12.R9", r9)
    ctx.run_rule("C12.R10", r10)
    ctx.run_rule("C12.R11", r11)
    ctx.run_rule("C12.R12", r12)
    ctx.run_rule("C12.R13", r13)
    ctx.run_rule("C12.R14", r14)

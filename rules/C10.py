"""C10 — a sync session ends cleanly whatever the peer sends and whatever fails locally."""
import re
from . import mir
from .mir import trace, origin_summary, callee_matches
from .common import find_calls, one_call, call_outcomes, Ensures
from . import paths as P
from . import typestate

EXPLANATION = (
    "Decides C10's bounded-enumeration clauses from MIR by abstract evaluation (no repository code is run): the accepting "
    'side (BobState::new, run, into_outcome) and the initiating side (run_alice) are interpreted over their MIR, with every'
    ' .await driven to completion and the environment scripted by an oracle: the frames the peer sends (all sequences up to'
    " length 2 (quick) / 3 (thorough) over {Init, Sync, Abort, undecodable}, then close), the accept callback's verdict, "
    'the outcome of each store-handle call (reply / done / error) and whether sending succeeds. (R1) every script returns '
    'Ok or Err - a panic or a non-evaluable construct is a violation - and into_outcome is evaluated on the state each run '
    'leaves behind; (R2) result and effects equal the protocol written from the property text (handshake first and once, '
    'callback asked before anything is processed, Abort / garbage / early close reported as errors, progress threaded '
    'through the calls, first local failure ends the session with an error, a declining callback never reaches the store '
    'handle, the acceptor reports the progress of its last step); (R4) the sync gate (shared with C14.R2); (R5) panic-'
    'capable sites of the remaining session plumbing (handle_connection, connect_and_sync) are audited, the codec and '
    'session functions being discharged by the evaluated tables. (R6) no wait-for cycle between the store actor and the '
    "live actor (effect analysis over the call graph): the store actor awaits sends into the live actor's replica-event "
    'queue while handling a sync message, the live actor empties that queue only in its main loop and awaits replies of the'
    " store actor in its handlers - so the queue must not be bounded. (R7) every return of the store actor's loop function "
    'is dominated by closing and draining its inbox, so that no request accepted into it is left unanswered when the actor '
    "stops. (R8) the store actor forwards SyncInitialMessage / SyncProcessMessage one to one and returns the threaded session state (the store-actor handler evaluated with the fields of the request as named tokens and gates / store / replica calls answered by an oracle, each step also failing in turn: the own fields of the request reach the core function in order on the addressed document, nothing is carried out after a failed step, the reply is the result of that function; the SyncHandle method evaluated: one request of its own kind, addressed to its namespace argument, each field one of its own parameters, the reply of the actor returned). (R9) net::handle_connection and net::connect_and_sync evaluated on (stream opened, session result, failing close step) cells: success or a reported error on every cell, success carries the document, peer and outcome of the session, the accepting side collects its outcome once after the session and finishes its send stream also after a failed or declined session. (R10) = C01.R3 accounting: received entries are counted per message before validation, sent ones per reply. NOT decided: 'never waits forever' when a future never completes (liveness), QUIC stream behaviour, mirrored "
    'counters as values, interleaving with other actor messages.'
)
ASSUMPTIONS = ["tokio_util FramedRead/FramedWrite and the QUIC streams are trusted", "the object invariant 'progress is Some' holds when a BobState is created (checked: BobState::new)"]

RUN = "net::codec::BobState::run::{closure#0}"
ALICE = "net::codec::run_alice::{closure#0}"


BOB = "net::codec::BobState::run"
ALICE_FN = "net::codec::run_alice"
MSG = "net::codec::Message"
BS = "net::codec::BobState"


EXPLANATION += ' Round 9: (R9) declined-session cells of net::handle_connection: whatever closing step fails, the error of a request we declined is the Abort or names no document; (R11) = C12.R4: the event fan-out that runs inside the store actor does not panic on closed subscribers.'
EXPLANATION += ' (R12, round 10) LiveActor::on_sync_finished evaluated on session result x finish() answer x subscribers x pending content: the peer is registered as useful exactly once after a successful session, never after a failed or declined one.'
EXPLANATION += ' (R13, round 11) every completion of our dial but the AlreadySyncing decline reaches on_sync_finished (the dial-completion cells of C11.R3).'
EXPLANATION += " (R14, round 13) = C03.R2's validate_empty table: a malformed entry whose shape the store's readers assert is refused at the door."


def _mk_frame(E, f, fr, i):
    if fr == "Init":
        return E.variant(f, MSG, "Init", namespace=E.Tok("ns"), message=E.Tok("init-msg"))
    if fr == "Sync":
        return E.variant(f, MSG, "Sync", E.Tok("sync-msg%d" % i))
    return E.variant(f, MSG, "Abort", reason=E.Tok("abort-reason"))


def eval_bob(f, frames, accept, proc, send_ok, raw=False):
    """the acceptor (BobState::run, then into_outcome) evaluated (K6', awaits driven to completion) against a script:
    frames the peer sends (Init/Sync/Abort/ioerr = undecodable, then end of stream), the accept callback's verdict,
    the outcome of each sync_process_message call (reply/done/err) and whether sending succeeds.
    Returns (result class, event list, final state rendering, into_outcome result)."""
    from . import feval as E
    st = {"fi": 0, "pi": 0, "log": []}

    def oracle(kind, name, payload, site):
        if kind == "call":
            t, args, it = payload
            names = [it.tokname(a) for a in args]
            if name == "new" and callee_matches(t, r"FramedRead"):
                return E.Tok("framed-reader")
            if name == "new" and callee_matches(t, r"FramedWrite"):
                return E.Tok("framed-writer")
            if name == "sync_process_message":
                st["log"].append(("process", names[1], names[2], names[-1]))
                return E.Tok("process-future")
            if (t["f"].get("path") or "").startswith("actor::SyncHandle::") and name not in ("into_future", "poll", "clone"):
                st["log"].append(("handle." + name,))
                return E.Tok("handle-future")
            return None
        if kind == "await":
            t, args, it = payload
            if name.startswith("next(framed-reader") or name.startswith("try_next(framed-reader"):
                # StreamExt::next yields Option<Result<frame>>, TryStreamExt::try_next the transposed Result<Option<frame>>
                tr = name.startswith("try_")
                i = st["fi"]
                st["fi"] += 1
                if i >= len(frames):
                    return E.Ok(E.NONE) if tr else E.NONE
                if frames[i] == "ioerr":
                    return E.Err(E.Tok("io-error")) if tr else E.Some(E.Err(E.Tok("io-error")))
                fr = _mk_frame(E, f, frames[i], i)
                return E.Ok(E.Some(fr)) if tr else E.Some(E.Ok(fr))
            if name.startswith("call(") or name.startswith("call_mut(") or name.startswith("call_once("):
                nsset = E.describe(E.field(f, it.heap["self"], BS, "namespace"), f)
                st["log"].append(("accept_cb", name[name.index(",(") + 2:-2] if ",(" in name else name, "namespace-field=" + nsset))
                return E.variant(f, "net::AcceptOutcome", "Allow") if accept == "Allow" else E.variant(f, "net::AcceptOutcome", "Reject", E.Tok("reject-reason"))
            if name == "process-future":
                k = st["pi"]
                st["pi"] += 1
                r = proc[k] if k < len(proc) else "done"
                if r == "err":
                    return E.Err(E.Tok("process-error"))
                return E.Ok(("tuple", [E.Some(E.Tok("reply%d" % k)) if r == "reply" else E.NONE, E.Tok("progress%d" % (k + 1))]))
            if name.startswith("send(framed-writer"):
                st["log"].append(("send", name[len("send(framed-writer,"):-1]))
                return E.Ok(E.UNIT) if send_ok else E.Err(E.Tok("send-error"))
        return None
    heap = {"self": E.struct(f, BS, namespace=E.NONE, peer=E.Tok("peer"), progress=E.Some(E.Tok("progress0")))}
    try:
        out, hp, ev = E.run_async(f, BOB, [E.href("self"), E.Tok("writer"), E.Tok("reader"), E.Tok("sync"), E.Tok("accept_cb")], heap, oracle)
    except E.Unsupported as e:
        return "UNSUPPORTED-FORM: %s" % e, st["log"], None, None
    if out is not None and out[0] == "diverge":
        return "PANIC", st["log"], None, None
    d = E.describe(out, f)
    res = "Ok(ns)" if d == "Ok(ns)" else ("Err(Abort)" if d.startswith("Err(Abort") else ("Err" if d.startswith("Err") else d))
    if raw:
        res = d
    final = hp["self"]
    try:
        o2, _, _ = E.run(f, BS + "::into_outcome", [final], {})
        io = "PANIC" if (o2 is not None and o2[0] == "diverge") else E.describe(o2, f)
    except E.Unsupported as e:
        io = "UNSUPPORTED-FORM: %s" % e
    return res, st["log"], E.describe(final, f), io


def ref_bob(frames, accept, proc, send_ok):
    """the acceptor as the property describes it: (result class, events)"""
    ns = False
    ev = []
    pi = 0
    for i, fr in enumerate(frames):
        if fr == "ioerr":
            return "Err", ev
        if fr == "Init" and not ns:
            ev.append(("accept_cb", "ns,peer", "namespace-field=None"))
            if accept != "Allow":
                ev.append(("send", "Abort(reject-reason)"))
                return ("Err(Abort)" if send_ok else "Err"), ev
            ev.append(("process", "ns", "init-msg", "progress%d" % pi))
            ns = True
        elif fr == "Sync" and ns:
            ev.append(("process", "ns", "sync-msg%d" % i, "progress%d" % pi))
        else:
            return "Err", ev
        r = proc[pi] if pi < len(proc) else "done"
        pi += 1
        if r == "err":
            return "Err", ev
        if r == "reply":
            ev.append(("send", "Sync(reply%d)" % (pi - 1)))
            if not send_ok:
                return "Err", ev
        else:
            break
    return ("Ok(ns)" if ns else "Err"), ev


def eval_alice(f, frames, init_ok, proc, send_ok):
    """the initiator (run_alice) evaluated against a script: see eval_bob"""
    from . import feval as E
    st = {"fi": 0, "pi": 0, "log": []}

    def oracle(kind, name, payload, site):
        if kind == "call":
            t, args, it = payload
            names = [it.tokname(a) for a in args]
            if name == "new" and callee_matches(t, r"FramedRead"):
                return E.Tok("framed-reader")
            if name == "new" and callee_matches(t, r"FramedWrite"):
                return E.Tok("framed-writer")
            if name == "sync_initial_message":
                st["log"].append(("initial", names[1]))
                return E.Tok("initial-future")
            if name == "sync_process_message":
                st["log"].append(("process", names[1], names[2], names[-1]))
                return E.Tok("process-future")
            if name == "default" and not args:
                return E.Tok("progress0")
            if name == "as_bytes":
                return E.Tok("bytes(%s)" % names[0])
            return None
        if kind == "await":
            if name == "initial-future":
                return E.Ok(E.Tok("init-msg")) if init_ok else E.Err(E.Tok("closed"))
            if name.startswith("next(framed-reader") or name.startswith("try_next(framed-reader"):
                # StreamExt::next yields Option<Result<frame>>, TryStreamExt::try_next the transposed Result<Option<frame>>
                tr = name.startswith("try_")
                i = st["fi"]
                st["fi"] += 1
                if i >= len(frames):
                    return E.Ok(E.NONE) if tr else E.NONE
                if frames[i] == "ioerr":
                    return E.Err(E.Tok("io-error")) if tr else E.Some(E.Err(E.Tok("io-error")))
                fr = _mk_frame(E, f, frames[i], i)
                return E.Ok(E.Some(fr)) if tr else E.Some(E.Ok(fr))
            if name == "process-future":
                k = st["pi"]
                st["pi"] += 1
                r = proc[k] if k < len(proc) else "done"
                if r == "err":
                    return E.Err(E.Tok("process-error"))
                return E.Ok(("tuple", [E.Some(E.Tok("reply%d" % k)) if r == "reply" else E.NONE, E.Tok("progress%d" % (k + 1))]))
            if name.startswith("send(framed-writer"):
                st["log"].append(("send", name[len("send(framed-writer,"):-1]))
                return E.Ok(E.UNIT) if send_ok else E.Err(E.Tok("send-error"))
        return None
    heap = {"writer": E.Tok("writer"), "reader": E.Tok("reader"), "handle": E.Tok("handle")}
    try:
        out, hp, ev = E.run_async(f, ALICE_FN, [E.href("writer"), E.href("reader"), E.href("handle"), E.Tok("ns"), E.Tok("peer")], heap, oracle)
    except E.Unsupported as e:
        return "UNSUPPORTED-FORM: %s" % e, st["log"]
    if out is not None and out[0] == "diverge":
        return "PANIC", st["log"]
    d = E.describe(out, f)
    if d.startswith("Ok("):
        return d, st["log"]
    return ("Err(RemoteAbort)" if "RemoteAbort" in d or "remote_abort" in d else "Err"), st["log"]


def ref_alice(frames, init_ok, proc, send_ok):
    ev = [("initial", "ns")]
    if not init_ok:
        return "Err", ev
    ev.append(("send", "Init(ns,init-msg)"))
    if not send_ok:
        return "Err", ev
    pi = 0
    for i, fr in enumerate(frames):
        if fr == "ioerr" or fr == "Init":
            return "Err", ev
        if fr == "Abort":
            return "Err(RemoteAbort)", ev
        ev.append(("process", "ns", "sync-msg%d" % i, "progress%d" % pi))
        r = proc[pi] if pi < len(proc) else "done"
        pi += 1
        if r == "err":
            return "Err", ev
        if r == "reply":
            ev.append(("send", "Sync(reply%d)" % (pi - 1)))
            if not send_ok:
                return "Err", ev
        else:
            break
    return "Ok(progress%d)" % pi, ev


def _scripts(max_len):
    import itertools
    alphabet = ("Init", "Sync", "Abort", "ioerr")
    for n in range(0, max_len + 1):
        for fr in itertools.product(alphabet, repeat=n):
            yield list(fr)


PROCS = (("reply", "reply", "done"), ("reply", "done"), ("done",), ("err",), ("reply", "err"))


def r1(ctx):
    """the accepting side: every script of peer frames x callback verdict x local failures"""
    f = ctx.facts
    run = f.body(RUN)
    ctx.touch(*f.scope(BOB, prefix="net::codec::"))
    new = f.body(BS + "::new")
    ctx.touch(new)
    from . import feval as E
    try:
        v, _, _ = E.run(f, new.path, [E.Tok("peer")], {})
        d = E.describe(v, f)
    except E.Unsupported as e:
        d = "UNSUPPORTED-FORM: %s" % e
    ctx.check(d.startswith("BobState(None,peer,Some("), "C10.R1", new.path, "initial-state", "BobState::new(peer) = %s (spec: no namespace yet, an outcome to report)" % d, new.sp)
    max_len = 3 if ctx.tier == "thorough" else 2
    n = 0
    bad = {"termination": [], "outcome-reportable": [], "protocol": [], "declined-changes-nothing": [], "outcome-threaded": []}
    defaults = {"default", "default()"}
    try:
        dp = "<sync::SyncOutcome as std::default::Default>::default"
        if dp in f.bodies:
            from . import feval as _E
            defaults.add(_E.describe(_E.run(f, dp, [], {})[0], f))
    except Exception:
        pass
    for frames in _scripts(max_len):
        for accept in ("Allow", "Reject"):
            for proc in PROCS:
                for send_ok in (True, False):
                    if "Init" not in frames and (accept == "Reject" or proc != PROCS[0] or not send_ok):
                        continue    # without an Init frame the callback, the store and the writer are never reached
                    n += 1
                    res, log, final, io = eval_bob(f, frames, accept, proc, send_ok)
                    tag = "frames=%s accept=%s process=%s send=%s" % ("+".join(frames) or "(close)", accept, "/".join(proc), "ok" if send_ok else "fails")
                    if res in ("PANIC",) or res.startswith("UNSUPPORTED"):
                        bad["termination"].append("%s: %s" % (tag, res))
                        continue
                    if io is None or io == "PANIC" or io.startswith("UNSUPPORTED"):
                        bad["outcome-reportable"].append("%s: run returned %s leaving %s; into_outcome: %s" % (tag, res, final, io))
                    # the outcome reported is the progress returned by the last processed message (the session's counters);
                    # only a failed processing step loses it (the step's progress never came back)
                    nproc = len([e for e in log if e[0] == "process"])
                    failed_step = nproc > 0 and nproc <= len(proc) and proc[nproc - 1] == "err"
                    want_io = "default" if failed_step else "progress%d" % nproc
                    if failed_step and io in defaults:
                        io = "default"      # Option::unwrap_or_default, SyncOutcome::default() and Default::default() are the same value
                    if io is not None and not io.startswith("UNSUPPORTED") and io != "PANIC" and io != want_io:
                        bad["outcome-threaded"].append("%s: run returned %s; into_outcome reports %s, the session's last progress is %s" % (tag, res, io, want_io))
                    wres, wev = ref_bob(frames, accept, proc, send_ok)
                    if (res, log) != (wres, wev):
                        bad["protocol"].append("%s: returns %s with effects %s; the protocol describes %s with %s" % (tag, res, log, wres, wev))
                    if accept == "Reject" and any(e[0].startswith("process") or e[0].startswith("handle.") for e in log):
                        bad["declined-changes-nothing"].append("%s: store reached: %s" % (tag, log))
    ctx.check(not bad["termination"], "C10.R1", RUN, "acceptor.returns-on-every-script", "%d scripts (frames up to length %d over {Init,Sync,Abort,undecodable}, then close) evaluated; panics / not evaluable: %s" % (n, max_len, bad["termination"][:3]), run.sp)
    ctx.check(not bad["outcome-reportable"], "C10.R1", RUN, "acceptor.outcome-reportable-after-every-exit", "into_outcome evaluated on the state left by each of the %d runs; failing: %s" % (n, bad["outcome-reportable"][:3]), run.sp)
    # "the accepting side can always report its outcome": once the callback allowed a request, every error the acceptor returns
    # names the peer and the document (the live actor reports and releases by them; same clause as C11.R3)
    unnamed = []
    nn = 0
    for frames in _scripts(2):
        if not frames or frames[0] != "Init":
            continue
        for proc in PROCS:
            for send_ok in (True, False):
                nn += 1
                res2 = eval_bob(f, frames, "Allow", proc, send_ok, raw=True)[0]
                if isinstance(res2, str) and res2.startswith("Err") and not res2.startswith("Err(Abort") and ("Some(ns)" not in res2 or "peer" not in res2):
                    unnamed.append("frames=%s process=%s send=%s: %s" % ("+".join(frames), "/".join(proc), send_ok, res2[:80]))
    ctx.check(not unnamed and nn >= 40, "C10.R2", RUN, "acceptor.error-of-an-allowed-session-names-the-document",
              "%d acceptor scripts with an allowed request: errors not naming (peer, Some(namespace)): %s" % (nn, unnamed[:3]), run.sp)
    ctx.check(not bad["outcome-threaded"], "C10.R2", RUN, "acceptor.reports-the-last-progress", "the outcome collected after each of the %d runs is the progress returned by the last processed message "
              "(what the initiator's counters mirror); deviating: %s" % (n, bad["outcome-threaded"][:3]), run.sp)
    ctx.check(not bad["protocol"], "C10.R2", RUN, "acceptor.protocol-table", "%d scripts compared with the protocol (Init first and once, callback asked before anything is processed, Sync only after Init, Abort/garbage/early close are errors, progress threaded, first failure ends the session with an error); deviating: %s" % (n, bad["protocol"][:3]), run.sp)
    ctx.check(not bad["declined-changes-nothing"], "C10.R3", RUN, "declined-request-touches-nothing", "scripts with a declining callback never reach the store handle; deviating: %s" % bad["declined-changes-nothing"][:3], run.sp)
    ctx.check(n >= 150, "C10.R1", RUN, "acceptor.scripts-enumerated", "%d scripts" % n, run.sp)
    # handle_connection collects the outcome whatever run() returned
    hc = [b for b in f.bodies.values() if b.path.startswith("net::handle_connection") and any(callee_matches(t, r"BobState::into_outcome$") for _, t in b.calls())]
    ctx.check(len(hc) == 1, "C10.R1", "net::handle_connection", "collects-outcome", "handle_connection calls into_outcome (on success and on failure)", hc[0].sp if hc else None)
    ctx.floor("C10.R1", 5)


def r2(ctx):
    """the initiating side"""
    f = ctx.facts
    al = f.body(ALICE)
    ctx.touch(*f.scope(ALICE_FN, prefix="net::codec::"))
    max_len = 3 if ctx.tier == "thorough" else 2
    n = 0
    bad_t, bad_p = [], []
    for frames in _scripts(max_len):
        for init_ok in (True, False):
            for proc in PROCS:
                for send_ok in (True, False):
                    if not init_ok and (frames or proc != PROCS[0] or not send_ok):
                        continue
                    if "Sync" not in frames and proc != PROCS[0]:
                        continue
                    n += 1
                    res, log = eval_alice(f, frames, init_ok, proc, send_ok)
                    tag = "initial=%s frames=%s process=%s send=%s" % ("ok" if init_ok else "fails", "+".join(frames) or "(close)", "/".join(proc), "ok" if send_ok else "fails")
                    if res == "PANIC" or res.startswith("UNSUPPORTED"):
                        bad_t.append("%s: %s" % (tag, res))
                        continue
                    wres, wev = ref_alice(frames, init_ok, proc, send_ok)
                    if (res, log) != (wres, wev):
                        bad_p.append("%s: returns %s with effects %s; the protocol describes %s with %s" % (tag, res, log, wres, wev))
    ctx.check(not bad_t, "C10.R1", ALICE, "initiator.returns-on-every-script", "%d scripts evaluated; panics / not evaluable: %s" % (n, bad_t[:3]), al.sp)
    ctx.check(not bad_p, "C10.R2", ALICE, "initiator.protocol-table", "%d scripts compared with the protocol (initial message then Init frame, each Sync processed with the threaded progress and answered, Init from the acceptor is an error, Abort is reported as a remote abort, first failure ends the session); deviating: %s" % (n, bad_p[:3]), al.sp)
    ctx.check(n >= 60, "C10.R2", ALICE, "initiator.scripts-enumerated", "%d scripts" % n, al.sp)
    ctx.floor("C10.R2", 3)


def r3(ctx):
    pass


def r4(ctx):
    from . import C14
    sub = type(ctx)(ctx.prop, ctx.tier, ctx.facts, ctx.cfg)
    C14.r2(sub)
    for o in sub.obligations:
        o = dict(o)
        o["rule"] = "C10.R4"
        o["key"] = o["key"].replace("C14.R2", "C10.R4")
        ctx.obligations.append(o)
        if o["status"] != "holds":
            ctx.violations.append(o)
    ctx.analysed_bodies |= sub.analysed_bodies
    ctx.floor("C10.R4", 5)


def r5(ctx):
    from . import C09
    sessions_ok = not any(o["status"] != "holds" and ("returns-on-every-script" in o["key"] or "outcome-reportable" in o["key"]) for o in ctx.obligations) and \
        any("returns-on-every-script" in o["key"] for o in ctx.obligations)
    C09.panic_audit(ctx, rule="C10.R5", only=re.compile(r"^(net::codec::|<net::codec::|net::handle_connection|net::connect_and_sync)"), sessions_ok=sessions_ok)
    # the wire types a peer's frame carries into the store actor: a record identifier that decodes although it is too short
    # panics in the actor at its first accessor - the session and every later call on the node wait forever (shared with C09.R3)
    sub = type(ctx)(ctx.prop, ctx.tier, ctx.facts, ctx.cfg)
    C09.r3(sub)
    n = 0
    for o in sub.obligations:
        if "RecordIdentifier" not in o["key"]:
            continue
        o = dict(o)
        o["key"] = o["key"].replace("C09.R3", "C10.R5")
        o["rule"] = "C10.R5"
        ctx.obligations.append(o)
        n += 1
        if o["status"] != "holds":
            ctx.violations.append(o)
    ctx.analysed_bodies |= sub.analysed_bodies
    if n < 3:
        raise mir.AnchorMissing("expected the RecordIdentifier obligations of C09.R3 (validating constructor, accessors), found %d" % n)


def r6(ctx):
    """no wait-for cycle between the two actors of a node (effect analysis over the call graph): while the store actor handles
    a sync message it sends one event per inserted entry to the live actor's replica-event queue; the live actor empties that
    queue only in its main loop and awaits replies of the store actor inside its handlers. If the queue is bounded, a message
    carrying more entries than it holds blocks the store actor on the queue while the live actor blocks on the store actor: the
    session - and the node - wait forever."""
    f = ctx.facts
    new = f.body("engine::live::LiveActor::new")
    ctx.touch(new)
    adt = f.adt("engine::live::LiveActor")
    names = [x["name"] for x in adt["variants"][0]["fields"]]
    # (1) how the queue is created: the constructor call whose receiver half becomes the field the main loop reads
    rx_fields = [n for n, x in zip(names, adt["variants"][0]["fields"]) if "async_channel::Receiver<sync::Event>" in x["ty"]]
    kind = {}
    for bi, si, s_ in new.statements():
        if s_["k"] == "assign" and s_["r"][0] == "agg" and s_["r"][1][0] == "adt" and str(s_["r"][1][1]).endswith("LiveActor"):
            for n in rx_fields:
                for o in trace(new, s_["r"][2][names.index(n)]):
                    if o.kind == "call" and "async_channel" in (o.data["f"].get("path") or ""):
                        kind[n] = o.data["f"].get("name")
    if len(rx_fields) != 1 or rx_fields[0] not in kind:
        raise mir.AnchorMissing("expected one async_channel::Receiver<sync::Event> field in LiveActor built from a channel constructor; found %s / %s" % (rx_fields, kind))
    rxf = rx_fields[0]
    # (2) the store actor awaits a send into subscribers' channels while it handles a message
    senders = [(b.path, t) for p_, b in f.bodies.items() if p_.startswith("sync::Subscribers::") for _, t in b.calls()
               if t["f"].get("name") == "send" and "async_channel::Sender" in (t["f"].get("path") or "") and "sync::Event" in (t["f"].get("full") or "")]

    def reaches_actor(path, depth=8, seen=None):
        seen = seen or set()
        if path in seen or depth < 0:
            return False
        seen.add(path)
        top = path.split("::{closure")[0]
        if top.startswith("actor::Actor::"):
            return True
        for cb, _, _ in f.callers().get(top, []):
            if reaches_actor(cb.path, depth - 1, seen):
                return True
        return False
    blocking = [p_ for p_, t in senders if reaches_actor(p_)]
    # (3) where the live actor reads the queue, (4) where it awaits the store actor
    readers = sorted({b.path.split("::{closure")[0] for p_, b in f.bodies.items() if p_.startswith("engine::live::LiveActor::") for _, t in b.calls()
                      if t["f"].get("name") == "recv" and "async_channel::Receiver" in (t["f"].get("path") or "") and "sync::Event" in (t["f"].get("full") or "")})
    awaits = sorted({"%s -> %s" % (b.path.split("::{closure")[0].split("::")[-1], t["f"].get("name")) for p_, b in f.bodies.items() if p_.startswith("engine::live::LiveActor::")
                     for _, t in b.calls() if (t["f"].get("path") or "").startswith("actor::SyncHandle::") and t["f"].get("name") not in ("clone", "metrics")})
    ctx.check(len(senders) >= 1 and len(readers) >= 1 and len(awaits) >= 4, "C10.R6", new.path, "actors-and-queue-identified",
              "store actor sends events in %s; live actor reads its queue (field `%s`) in %s and awaits the store actor at %d sites" % (sorted({p_ for p_, _ in senders}), rxf, readers, len(awaits)), new.sp)
    cycle = kind[rxf] == "bounded" and bool(blocking) and bool(awaits)
    ctx.check(not cycle, "C10.R6", new.path, "no-wait-for-cycle[store-actor<->live-actor]",
              "the live actor's replica-event queue is created by async_channel::%s; the store actor awaits Sender::send into it while handling a message (%s); the live actor empties it only in %s and awaits the store actor's replies in its handlers (%s%s): %s"
              % (kind[rxf], blocking[:2], readers, ", ".join(awaits[:6]), ", ..." if len(awaits) > 6 else "",
                 "a message with more entries than the queue holds makes both wait for each other" if cycle else "the store actor never waits for the live actor"), new.sp)
    ctx.floor("C10.R6", 2)


def r7(ctx):
    """the store actor stops: nobody may be left waiting on a request it accepted into its inbox. Every return of the actor's
    loop function is dominated by closing the inbox and draining it (dropping a queued action drops the reply channel inside
    it, so its caller gets an error; async_channel keeps queued messages alive while any sender - the waiting caller's own
    handle - exists, so dropping the receiver alone answers nobody)."""
    f = ctx.facts
    top = f.body("actor::Actor::run_async")
    b = f.bodies.get(top.path + "::{closure#0}") if top.rec.get("is_async") else top
    b = b or top
    fam = f.scope(top.path, prefix="actor::Actor::")
    ctx.touch(*fam)
    rets = [bi for bi, blk in enumerate(b.blocks) if blk["t"]["k"] == "return"]

    def on_inbox(t):
        return "async_channel::Receiver" in (t["f"].get("path") or "") and "actor::Action" in (t["f"].get("full") or "")
    # the calls may sit in the loop function itself or in a private helper it calls: judged at the call site in the loop function
    def sites(name):
        out = []
        for bi, t in b.calls():
            if t["f"].get("name") == name and on_inbox(t):
                out.append(bi)
            else:
                for p_ in mir.callee_paths(t):
                    hb = f.bodies.get(p_)
                    if hb is not None and p_.startswith("actor::") and any(t2["f"].get("name") == name and on_inbox(t2) for x in f.family(p_) for _, t2 in x.calls()):
                        out.append(bi)
        return out
    closes, drains = sites("close"), sites("try_recv")
    ok_close = bool(rets) and bool(closes) and all(any(b.dominates(c, r_) for c in closes) for r_ in rets)
    ok_drain = bool(rets) and bool(drains) and all(any(b.dominates(d, r_) for d in drains) for r_ in rets) and any(b.dominates(c, d) or c == d for c in closes for d in drains)
    ctx.check(ok_close and ok_drain, "C10.R7", top.path, "inbox-closed-and-drained-before-the-actor-stops",
              "%d return(s); Receiver<Action>::close at %d site(s), try_recv at %d site(s); every return dominated by close: %s, by a drain after the close: %s "
              "(a request queued behind Shutdown - e.g. the next message of a running sync session - is otherwise never answered: its caller waits forever)"
              % (len(rets), len(closes), len(drains), ok_close, ok_drain), top.sp)
    ctx.floor("C10.R7", 1)


def r8(ctx):
    """the session's steps through the asynchronous handle: the message, the peer and the threaded session state of the
    request are the ones processed, and the state comes back with the reply"""
    from . import actorfw
    actorfw.claim(ctx, "C10.R8", handlers=("SyncInitialMessage", "SyncProcessMessage"), clients=("sync_initial_message", "sync_process_message"), floor=8)


def r9(ctx):
    """the connection wrappers around the two session functions: success or a reported error on every cell, success carrying
    the outcome of the session, the outcome of the accepting side collected and its stream finished whatever the session did"""
    from . import netfw
    netfw.check_accept(ctx, "C10.R9")
    netfw.check_connect(ctx, "C10.R9")
    ctx.floor("C10.R9", 23)


def r10(ctx):
    """"on success the two sides' sent/received counts mirror each other": each side counts every entry of every message it
    receives and every entry of every reply it sends - whatever validation later does with them (the accounting rule of C01.R3)"""
    from . import C01
    sub = type(ctx)(ctx.prop, ctx.tier, ctx.facts, ctx.cfg)
    C01.r3(sub)
    for o in sub.obligations:
        o = dict(o)
        o["key"] = re.sub(r"^C\d\d\.R\w+", "C10.R10", o["key"])
        o["rule"] = "C10.R10"
        ctx.obligations.append(o)
        if o["status"] != "holds":
            ctx.violations.append(o)
    ctx.analysed_bodies |= sub.analysed_bodies
    ctx.floor("C10.R10", 3)


def r11(ctx):
    """"they never panic": the replica's event fan-out runs inside the store actor while it handles a session message - a panic
    there ends the actor (Subscribers::send / unsubscribe evaluated on subscriber lists with closed receivers, = C12.R4)"""
    from . import C12
    ctx.share("C10.R11", C12.r4, "C12.R4", floor=3)

def r12(ctx):
    """"a declined request changes nothing in the store": the completion handler of the live actor registers the peer as useful
    only after a successful session (LiveActor::on_sync_finished evaluated on every result class)"""
    from . import livefw
    livefw.check_sync_finished(ctx, "C10.R12", "useful-peer")
    ctx.floor("C10.R12", 24)

def r13(ctx):
    """"both the initiating and the accepting side finish with success or a reported error": whatever way our dial ends - success,
    connection failure, a decline (document not found, internal error), a failed session or close - the live actor's completion
    handler passes the outcome on to on_sync_finished, which records it and tells the subscribers (the dial-completion cells of
    C11.R3)"""
    from . import C11
    ctx.share("C10.R13", C11.r3, "C11.R3", keep=lambda k: "dial-completion-is-reported" in k, floor=5)

def r14(ctx):
    """"whatever sequence of frames a remote peer sends ... they never panic": an entry whose shape the store's readers assert
    (a record of length 0 has the empty hash: Record::new debug-asserts it when the row is read back) must not get in - the
    validate_empty table of C03.R2 (C10-13: a signed entry with a non-empty hash and length 0 was admitted, the store actor
    panicked at the next scan)"""
    from . import C03
    ctx.share("C10.R14", C03.r2, "C03.R2", keep=lambda k: "validate_empty" in k, floor=1)

def run(ctx):
    ctx.run_rule("C10.R1", r1)
    ctx.run_rule("C10.R2", r2)
    ctx.run_rule("C10.R4", r4)
    ctx.run_rule("C10.R5", r5)
    ctx.run_rule("C10.R6", r6)
    ctx.run_rule("C10.R7", r7)
    ctx.run_rule("C10.R8", r8)
    ctx.run_rule("C10.R9", r9)
    ctx.run_rule("C10.R10", r10)
    ctx.run_rule("C10.R11", r11)
    ctx.run_rule("C10.R12", r12)
    ctx.run_rule("C10.R13", r13)
    ctx.run_rule("C10.R14", r14)

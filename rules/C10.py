"""C10 — a sync session ends cleanly whatever the peer sends and whatever fails locally."""
import re
from . import mir
from .mir import trace, origin_summary, callee_matches
from .common import find_calls, one_call, call_outcomes, Ensures
from . import paths as P
from . import typestate

EXPLANATION = (
    "Decides structural necessary conditions of C10 from MIR: (R1) option-field typestate of the session progress: at every "
    "take().unwrap() the tracked Option is Some on all paths, and either the acceptor's run() restores it on every exit or no "
    "other method unwraps the field (forward dataflow {Some,None,Top}); (R2) protocol arms of BobState::run over {Init,Sync,Abort} "
    "x {namespace None,Some}: (Init,None) and (Sync,Some) proceed, the other arms return Err, none is a silent no-op; run_alice: "
    "Init => Err, Abort => RemoteAbort error; (R3) a declined request changes nothing: on the Reject edge an Abort frame is sent "
    "and no store-handle method is called; every sync_process_message call is dominated by the Allow edge or by namespace==Some; "
    "(R4) the sync gate (shared with C14.R2); (R5) the session functions' panic-capable sites are audited (shared with C09.R3). "
    "NOT decided: 'never waits forever' (liveness over schedules), QUIC stream behaviour, mirrored counters as values."
)
ASSUMPTIONS = ["tokio_util FramedRead/FramedWrite and the QUIC streams are trusted", "the object invariant 'progress is Some' holds when a BobState is created (checked: BobState::new)"]

RUN = "net::codec::BobState::run::{closure#0}"
ALICE = "net::codec::run_alice::{closure#0}"


def r1(ctx):
    f = ctx.facts
    run = f.body(RUN)
    ctx.touch(run)
    new = f.body("net::codec::BobState::new")
    ctx.touch(new)
    init_some = False
    for bi, si, s in new.statements():
        if s["k"] == "assign" and s["r"][0] == "agg" and s["r"][1][0] == "adt" and s["r"][1][1] == "net::codec::BobState":
            names = s["r"][1][4]
            idx = names.index("progress")
            o = trace(new, s["r"][2][idx])
            init_some = all(x.kind == "agg" and x.data[0][2] == "Some" for x in o) and bool(o)
    ctx.check(init_some, "C10.R1", new.path, "progress-initially-Some", "BobState::new sets progress = Some(..)", new.sp)
    ts = typestate.analyse(run, "progress")
    if not ts["takes"]:
        ctx.ok("C10.R1", RUN, "no-take", "the acceptor never takes the progress out of the state", run.sp)
    for bi, (st, t) in sorted(ts["takes"].items()):
        # the taken value is unwrapped: must be Some
        ctx.check(st == "S", "C10.R1", RUN, "take-site-always-Some#%d" % (sorted(ts["takes"]).index(bi)), "state before take(): %s" % st, t["sp"])
    empties = [(bi, st) for bi, st in ts["exits"].items() if st != "S"]
    # other methods unwrapping the field
    readers = []
    for b in f.bodies.values():
        if not b.path.startswith("net::codec::BobState::") or b.path.startswith("net::codec::BobState::run"):
            continue
        t2 = typestate.analyse(b, "progress")
        for ubi, (st, ut) in t2["unwraps"].items():
            readers.append((b, ut))
        ctx.touch(b)
    if empties:
        ctx.check(not readers, "C10.R1", RUN, "exits-with-progress-empty=>nobody-unwraps-it",
                  "run() can return with progress == None on %d exits (after a local failure while a message is processed) and %s" %
                  (len(empties), "no other method unwraps the field" if not readers else
                   "%s unwraps it: the accepting side panics when its outcome is collected after such a failure" % [b.path for b, _ in readers]),
                  readers[0][1]["sp"] if readers else run.sp)
    else:
        ctx.ok("C10.R1", RUN, "restores-progress-on-every-exit", "progress is Some at all %d exits" % len(ts["exits"]), run.sp)
    # handle_connection collects the outcome unconditionally -> covered by the rule above; record the call
    hc = [b for b in f.bodies.values() if b.path.startswith("net::handle_connection") and any(callee_matches(t, r"BobState::into_outcome$") for _, t in b.calls())]
    ctx.check(len(hc) == 1, "C10.R1", "net::handle_connection", "collects-outcome", "handle_connection calls into_outcome (on success and on failure)", hc[0].sp if hc else None)
    # initiator: local `progress`
    al = f.body(ALICE)
    ctx.touch(al)
    ta = typestate.analyse(al, "progress")
    for bi, (st, t) in sorted(ta["takes"].items()):
        ctx.check(st == "S", "C10.R1", ALICE, "take-site-always-Some#%d" % (sorted(ta["takes"]).index(bi)), "state before take(): %s" % st, t["sp"])
    for bi, (st, t) in sorted(ta["unwraps"].items()):
        ctx.check(st == "S", "C10.R1", ALICE, "final-unwrap-always-Some#%d" % (sorted(ta["unwraps"]).index(bi)), "state before unwrap(): %s" % st, t["sp"])
    ctx.check(bool(ta["takes"]) or bool(ta["unwraps"]) or True, "C10.R1", ALICE, "analysed", "takes=%d unwraps=%d" % (len(ta["takes"]), len(ta["unwraps"])), al.sp)
    ctx.floor("C10.R1", 5)


def _msg_variants(f):
    return [v["name"] for v in f.adt("net::codec::Message")["variants"]]


def r2(ctx):
    f = ctx.facts
    run = f.body(RUN)
    MV = _msg_variants(f)
    # the match on (msg, self.namespace.as_ref()): find switch blocks on discr of the tuple's fields
    # strategy: for every sync_process_message call and every error construction, evaluate which (variant, ns) arms dominate it
    spm = [(bi, t) for bi, t in run.calls() if t["f"].get("name") == "sync_process_message"]
    if len(spm) != 2:
        raise mir.AnchorMissing("BobState::run: expected 2 sync_process_message calls, found %d" % len(spm))
    # collect the decision context of each site via path exploration limited to the dispatch region is too costly (1284 blocks);
    # use edge dominance on the two discriminant switches instead
    msg_sw = []
    ns_sw = []
    for bi, blk in enumerate(run.blocks):
        t = blk["t"]
        if t["k"] != "switch" or mir.is_noise(t["x"]):
            continue
        d = t["d"]
        if d[0] not in ("copy", "move"):
            continue
        defs = run.defs().get(d[1]["l"], [])
        if len(defs) != 1 or defs[0][2] != "assign" or defs[0][3]["r"][0] != "discr":
            continue
        pl = defs[0][3]["r"][1]
        ty = run.locals[pl["l"]]["ty"]
        fl = [pr for pr in pl["p"] if pr[0] == "field"]
        if ty.startswith("(net::codec::Message") and fl:
            if fl[0][1] == 0 and len(fl) == 1:
                msg_sw.append((bi, t))
            elif fl[0][1] == 1:
                ns_sw.append((bi, t))
    if not msg_sw or not ns_sw:
        raise mir.AnchorMissing("BobState::run: dispatch on (message, namespace) not found (%d/%d switches)" % (len(msg_sw), len(ns_sw)))

    def arm_of(site_bb):
        """(message variants, namespace states) whose edges dominate site_bb"""
        mv = set()
        for bi, t in msg_sw:
            for v, tb in t["v"]:
                if run.edge_dominates(bi, tb, site_bb):
                    mv.add(MV[v])
        nsv = set()
        for bi, t in ns_sw:
            for v, tb in t["v"]:
                if run.edge_dominates(bi, tb, site_bb):
                    nsv.add({0: "None", 1: "Some"}[v])
            if run.edge_dominates(bi, t["o"], site_bb) and run.blocks[t["o"]]["t"]["k"] != "unreachable":
                listed = {v for v, _ in t["v"]}
                for v in (0, 1):
                    if v not in listed:
                        nsv.add({0: "None", 1: "Some"}[v])
        return mv, nsv
    arms = {}
    for bi, t in spm:
        mv, nsv = arm_of(bi)
        arms[(tuple(sorted(mv)), tuple(sorted(nsv)))] = t
    want = {(("Init",), ("None",)), (("Sync",), ("Some",))}
    ctx.check(set(arms) == want, "C10.R2", RUN, "process-only-in-(Init,None)-and-(Sync,Some)",
              "sync_process_message is called under arms %s; spec %s" % (sorted(arms), sorted(want)), spm[0][1]["sp"])
    # error arms: calls to self.fail(..) inside the dispatch with 'double init' / 'before init' / 'abort'
    fails = [(bi, t) for bi, t in run.calls() if callee_matches(t, r"net::codec::BobState::fail$")]
    err_arms = set()
    for bi, t in fails:
        mv, nsv = arm_of(bi)
        if mv:
            # must flow into a returned Err
            err_arms.add((tuple(sorted(mv)), tuple(sorted(nsv))))
    need = {(("Init",), ("Some",)), (("Sync",), ("None",))}
    ok = need <= err_arms and any(a[0] == ("Abort",) for a in err_arms)
    ctx.check(ok, "C10.R2", RUN, "out-of-order-frames-are-errors", "error arms %s; spec: (Init,Some), (Sync,None) and Abort return Err" % sorted(err_arms), run.sp)
    # initiator arms
    al = f.body(ALICE)
    msw = []
    for bi, blk in enumerate(al.blocks):
        t = blk["t"]
        if t["k"] == "switch" and t["d"][0] in ("copy", "move") and not mir.is_noise(t["x"]):
            defs = al.defs().get(t["d"][1]["l"], [])
            if len(defs) == 1 and defs[0][2] == "assign" and defs[0][3]["r"][0] == "discr" and al.locals[defs[0][3]["r"][1]["l"]]["ty"] == "net::codec::Message" and not defs[0][3]["r"][1]["p"]:
                msw.append((bi, t))
    if len(msw) != 1:
        raise mir.AnchorMissing("run_alice: dispatch on the message not found (%d)" % len(msw))
    sbi, st = msw[0]
    a_spm = [(bi, t) for bi, t in al.calls() if t["f"].get("name") == "sync_process_message"]
    arm = {}
    for v, tb in st["v"]:
        calls_in = [t["f"].get("name") for bi, t in al.calls() if al.edge_dominates(sbi, tb, bi)]
        arm[MV[v]] = calls_in
    ok = "sync_process_message" in arm.get("Sync", []) and "sync_process_message" not in arm.get("Init", []) + arm.get("Abort", []) \
        and "remote_abort" in arm.get("Abort", []) and any(x in ("sync", "format_err", "msg") for x in arm.get("Init", []))
    ctx.check(ok, "C10.R2", ALICE, "initiator-arms", "Init => error, Sync => process, Abort => RemoteAbort: %s" % {k: sorted(set(v) & {"sync_process_message", "remote_abort", "sync", "send"}) for k, v in arm.items()}, st["sp"])
    ctx.floor("C10.R2", 3)


def r3(ctx):
    f = ctx.facts
    run = f.body(RUN)
    # the accept callback call and its outcome switch
    acc = [(bi, t) for bi, t in run.calls() if t["f"].get("name") == "call" and t["f"].get("full", "").startswith("<F as ")]
    if len(acc) != 1:
        raise mir.AnchorMissing("BobState::run: accept callback call not found (%d)" % len(acc))
    AO = [v["name"] for v in f.adt("net::AcceptOutcome")["variants"]]
    from .common import variant_edges, dominated_by_any
    acc_bi = acc[0][0]
    rej_es = [e for e in variant_edges(run, lambda ty: ty == "net::AcceptOutcome", AO.index("Reject")) if run.dominates(acc_bi, e[0])]
    al_es = [e for e in variant_edges(run, lambda ty: ty == "net::AcceptOutcome", AO.index("Allow")) if run.dominates(acc_bi, e[0])]
    if not rej_es or not al_es:
        raise mir.AnchorMissing("BobState::run: the accept outcome is not tested for Allow/Reject")
    st = run.blocks[rej_es[0][0]]["t"]
    rej = rej_es[0]
    al = al_es[0]
    region = run.reach_from_edges([e[1] for e in rej_es])
    # on the reject edge: an Abort message is sent, no SyncHandle method is called, and the function returns Err
    handle_calls = [t["f"].get("name") for bi, t in run.calls() if bi in region and dominated_by_any(run, rej_es, bi) and callee_matches(t, r"actor::SyncHandle::")]
    aborts = [s for bi, si, s in run.statements() if s["k"] == "assign" and s["r"][0] == "agg" and s["r"][1][0] == "adt" and s["r"][1][1] == "net::codec::Message" and s["r"][1][2] == "Abort" and dominated_by_any(run, rej_es, bi)]
    ctx.check(not handle_calls and len(aborts) == 1, "C10.R3", RUN, "declined-request-touches-nothing",
              "on the Reject edge: store-handle calls %s, Abort frames built %d" % (handle_calls, len(aborts)), st["sp"])
    # every sync_process_message call is dominated by Allow (Init arm) or happens in the (Sync, Some) arm
    spm = [(bi, t) for bi, t in run.calls() if t["f"].get("name") == "sync_process_message"]
    # "after Allow" = dominated by an Allow edge, or dominated by the accept test and not reachable
    # from the Reject edge without leaving the function (the reject arm returns)
    rej_returns = not any(run.blocks[x]["t"]["k"] != "return" and bi2 in region for bi2, t2 in spm for x in [bi2])

    def after_allow(bi2):
        if dominated_by_any(run, al_es, bi2):
            return True
        return run.dominates(acc_bi, bi2) and bi2 not in region
    n_allow = sum(1 for bi, t in spm if after_allow(bi))
    ctx.check(n_allow == 1, "C10.R3", RUN, "init-processed-only-after-Allow", "%d of %d process calls are dominated by the Allow edge (the Init arm's)" % (n_allow, len(spm)), spm[0][1]["sp"])
    # namespace is set only after Allow
    sets = [bi for bi, si, s in run.statements() if s["k"] == "assign" and s["p"]["p"] and s["p"]["p"][-1][0] == "field" and s["p"]["p"][-1][2] == "namespace" and "BobState" in str(run.locals[s["p"]["l"]]["ty"]) or
            (s["k"] == "assign" and s["p"]["p"] and s["p"]["p"][-1][0] == "field" and s["p"]["p"][-1][2] == "namespace" and s["r"][0] == "agg" and s["r"][1][2] == "Some")]
    ok = bool(sets) and all(after_allow(bi) for bi in sets)
    ctx.check(ok, "C10.R3", RUN, "namespace-set-only-after-Allow", "%d assignments to self.namespace, all dominated by the Allow edge" % len(sets), run.sp)
    ctx.floor("C10.R3", 3)


def r4(ctx):
    from . import C14
    sub = type(ctx)(ctx.prop, ctx.tier, ctx.facts, ctx.cfg)
    C14.r2(sub)
    for o in sub.obligations:
        o = dict(o)
        o["rule"] = "C10.R4"
        o["key"] = o["key"].replace("C14.R2", "C10.R4")
        ctx.obligations.append(o)
        if o["status"] != "holds":
            ctx.violations.append(o)
    ctx.analysed_bodies |= sub.analysed_bodies
    ctx.floor("C10.R4", 5)


def r5(ctx):
    from . import C09
    C09.panic_audit(ctx, rule="C10.R5", only=re.compile(r"^(net::codec::|<net::codec::|net::handle_connection|net::connect_and_sync)"))


def run(ctx):
    ctx.run_rule("C10.R1", r1)
    ctx.run_rule("C10.R2", r2)
    ctx.run_rule("C10.R3", r3)
    ctx.run_rule("C10.R4", r4)
    ctx.run_rule("C10.R5", r5)

"""C16 — removing a document erases it completely and only it."""
import re
from . import mir, tables
from .mir import trace, origin_summary, callee_matches
from .common import find_calls, one_call, call_outcomes, follow_value

EXPLANATION = (
    'Decides structural necessary conditions of C16 from MIR: (R1) every table of store::fs::tables::Tables (program-'
    "derived set) is cleared for the namespace inside remove_replica's transaction or is on the exemption list (authors: "
    'store-global keys); (R2) every key/bound used by those removals derives from the namespace argument and the namespace '
    'range ends at the fixed-width successor or is unbounded; (R3) the open guard dominates the transaction and the actor '
    'closes before removing; (R4) no storage result is discarded in remove_replica; (R5) the content-hash iterator ranges '
    'over the whole records table of a snapshot taken after a flush and the GC task never maps an error to Continue. (R6) '
    "the API handler doc_drop evaluated: the store actor's drop_replica is reached for the requested document and success "
    'is reported only if it succeeded. The protect callback continues only when the list of hashes was received to its '
    'explicit end marker: a channel that merely closes (the task was aborted with the engine) aborts the collection run. '
    '(R7) the store actor drop handler evaluated against the handle count (shared with C14.R6): a drop refused because other handles hold the document leaves their handles alone. (R8) requests naming an unknown (removed) document - set_download_policy, register_useful_peer - are refused and write nothing (the unknown-document cells of C15.R2 / C17.R2). (R9) = C14.R3 open / close cells. NOT decided: byte-for-byte equality of neighbouring documents (redb trusted).'
)
ASSUMPTIONS = ["redb tables are identified by their key/value types", "redb range semantics trusted"]


RR = "store::fs::Store::remove_replica"
EXEMPT = {"authors": "author keys are store-global, not per document"}
# a silently failed removal from the by-key index leaves only stale ids, which every reader of the
# index skips (C05.R6); it is not observable, so demanding propagation would exceed the property
TOLERATED_DISCARD = {"records_by_key": "stale ids in the by-key index are skipped by its readers (not observable)"}


EXPLANATION += ' (R9, round 8) also the close cells of the API handle (= C14.R5). (R10) = C12.R9: a refused removal does not end the event streams of the holders.'
EXPLANATION += ' (R11, round 9) = C18.R4 / R6: a migration that executed is committed whatever row count it reports, so the capability-table migrations cannot bring a removed document back on the next open.'
EXPLANATION += ' Round 10: (R12) the failing-body and destructor rows of C06.R4; (R13) Store::remove_replica evaluated on an open document: an error, no table touched.'
EXPLANATION += ' (R14, round 11) = C14.R9: the engine holds its handle exactly while it has the document joined.'
EXPLANATION += ' (R15, round 12) exhaustiveness over the in-memory state of the store: every field of Store that can hold something per document is erased by remove_replica, or is the set its open guard consults, or is the public-key cache (no memo of a removed document survives it).'


def r1(ctx, rule="C16.R1", only=None):
    f = ctx.facts
    types = tables.table_types(f)
    fam = f.scope(RR, prefix="store::fs::")
    ctx.touch(*fam)
    cleared = {}
    for b in fam:
        for bi, t in b.calls():
            ct = tables.call_table(t, types)
            if ct and ct[1] in ("remove", "remove_all", "retain", "retain_in", "extract_if", "extract_from_if", "drain"):
                cleared.setdefault(ct[0], []).append((b, bi, t))
    # redb's extract_if / extract_from_if are lazy: rows are removed only as the iterator is consumed
    from .common import uses_of_local
    for name, sites in list(cleared.items()):
        live = []
        for b, bi, t in sites:
            if t["f"].get("name") in ("extract_if", "extract_from_if"):
                consumed = False
                # follow the result through `?` into a consuming call
                frontier = [t["d"]["l"]]
                seen = set()
                while frontier:
                    l = frontier.pop()
                    if l in seen:
                        continue
                    seen.add(l)
                    for ubi, usi, u in uses_of_local(b, l):
                        if usi == "t" and u["k"] == "call":
                            n = u["f"].get("name")
                            if n in ("count", "for_each", "collect", "last", "fold", "next", "into_iter", "try_for_each", "sum", "max", "min", "all", "any"):
                                consumed = True
                            elif n in ("branch", "unwrap", "expect", "map_err", "into", "from"):
                                frontier.append(u["d"]["l"])
                        elif usi != "t" and u["k"] == "assign" and not u["p"]["p"]:
                            frontier.append(u["p"]["l"])
                if not consumed:
                    ctx.note("lazy extraction on `%s` at %s is never drained" % (name, t["sp"]))
                    continue
            live.append((b, bi, t))
        if live:
            cleared[name] = live
        else:
            del cleared[name]
    for name in types:
        if only and name not in only:
            continue
        if name in EXEMPT:
            ctx.ok(rule, RR, "table.%s" % name, "exempt: %s" % EXEMPT[name], fam[0].sp)
            continue
        ctx.check(name in cleared, rule, RR, "table.%s" % name,
                  "rows of this namespace are removed from `%s`" % name if name in cleared else
                  "remove_replica never touches table `%s`: rows of a removed document survive (and reappear if the document is re-created)" % name,
                  cleared[name][0][2]["sp"] if name in cleared else fam[0].sp)
    if not only:
        ctx.floor(rule, len(types))
    return cleared



def eval_remove_replica(f, ns_byte=7, has_succ=True, is_open=False):
    """Store::remove_replica evaluated (K6') on a concrete namespace id (32 x ns_byte): Store::modify runs the transaction body,
    every table call is recorded with its key / bounds rendered. Returns (result, [(table, op, rendered key or bounds)])."""
    from . import feval as E
    types = tables.table_types(f)
    log = []
    ns_hex = "%02x" % ns_byte * 32
    succ_hex = ("%02x" % ns_byte * 31) + "%02x" % (ns_byte + 1) if ns_byte < 255 else None
    inl = [x.path for x in f.bodies.values() if x.path.startswith("store::fs::bounds::") and not x.path.endswith("increment_by_one")]

    def oracle(kind, name, payload, site):
        if kind != "call":
            return None
        t, args, it = payload
        if callee_matches(t, r"store::fs::Store::modify$"):
            it.heap.setdefault("tables", E.Tok("tables"))
            return it.apply(args[1], [E.href("tables")])
        if name == "contains" and "HashSet" in (t["f"].get("full") or ""):
            return E.Int(1 if is_open else 0)
        ct = tables.call_table(t, types)
        if ct:
            log.append((ct[0], ct[1], E.describe(it.resolve(args[1]), f) if len(args) > 1 else ""))
            return E.Ok(E.NONE)
        if name == "increment_by_one":
            cur = it.tokname(args[0]).strip("&*")
            if cur == "id:" + ns_hex and succ_hex and has_succ:
                if args[0][0] == "ref":
                    it.write_loc(args[0][1], E.Tok("id:" + succ_hex))
                return E.Int(1)
            return E.Int(0)
        if name in ("to_bytes", "as_bytes") and args and it.tokname(args[0]).strip("&*") == "ns":
            return E.Tok("id:" + ns_hex)
        if name == "new" and callee_matches(t, r"Bytes::new"):
            return E.Tok("empty")
        if name == "as_ref":
            return args[0]
        return None
    try:
        ret, itp = E.run_it(f, RR, [E.href("self"), E.href("namespace")], {"self": E.Tok("store"), "namespace": E.Tok("ns")}, oracle, inline=inl)
        return E.describe(ret, f), log
    except E.Unsupported as e:
        return "UNSUPPORTED-FORM: %s" % e, log


from .keyrange import bounds as _range, inside as _inside   # noqa: E402


def removal_ranges(ctx):
    """what remove_replica erases, decided on sample keys: every row of the removed document lies inside the erased key range of
    its table, no row of a neighbouring document does"""
    f = ctx.facts
    b = f.body(RR)
    authors = [bytes([0]) * 32, bytes([0]) * 31 + b"\x01", bytes([0x7f]) * 32, bytes([255]) * 31 + b"\xfe", bytes([255]) * 32]
    keys = [b"", b"\x00", b"k", b"\xff\xff"]
    for ns_byte, has_succ in ((7, True), (255, False)):
        got, log = eval_remove_replica(f, ns_byte, has_succ)
        ns = bytes([ns_byte]) * 32
        below = bytes([ns_byte]) * 31 + bytes([ns_byte - 1])
        above = (bytes([ns_byte]) * 31 + bytes([ns_byte + 1])) if ns_byte < 255 else None
        shapes = {"records": lambda n, a, k: (n, a, k), "records_by_key": lambda n, a, k: (n, k, a), "latest_per_author": lambda n, a, k: (n, a)}
        seen = set()
        for table, op, rendered in log:
            if table not in shapes:
                if op in ("remove", "remove_all"):
                    seen.add(table)
                    ctx.check(rendered == "id:" + ns.hex(), "C16.R2", RR, "erased-key.%s[ns=%02x..]" % (table, ns_byte), "%s(%s); spec: the key is the namespace id" % (op, rendered), b.sp)
                continue
            seen.add(table)
            try:
                rng = _range(rendered)
                mk = shapes[table]
                missing = [mk(ns, a, k) for a in authors for k in keys if not _inside(mk(ns, a, k), rng)]
                foreign = [mk(n2, a, k) for n2 in (below, above) if n2 is not None for a in authors for k in keys if _inside(mk(n2, a, k), rng)]
                ok = not missing and not foreign
                det = "%s(%s): rows of this document outside the range: %s; rows of neighbouring documents inside: %s" % (op, rendered, [tuple(x.hex()[:8] for x in m) for m in missing[:3]], [tuple(x.hex()[:8] for x in m) for m in foreign[:3]])
            except ValueError as e:
                ok, det = False, "UNSUPPORTED-FORM: cannot read the bounds %s (%s)" % (rendered, e)
            ctx.check(ok, "C16.R2", RR, "erased-range-is-exactly-this-document.%s[ns=%02x..]" % (table, ns_byte), det, b.sp)
        ctx.check(got == "Ok(())" and {"records", "records_by_key", "latest_per_author", "namespaces"} <= seen, "C16.R2", RR, "removal-evaluated[ns=%02x..]" % ns_byte, "returns %s; tables touched %s" % (got, sorted(seen)), b.sp)

def r2(ctx):
    f = ctx.facts
    types = tables.table_types(f)
    fam = f.scope(RR, prefix="store::fs::")
    outer = fam[0]
    n = 0
    for b in fam:
        for bi, t in b.calls():
            ct = tables.call_table(t, types)
            if not ct or ct[1] not in ("remove", "remove_all", "retain", "retain_in", "extract_if", "extract_from_if"):
                continue
            # first non-self argument: key or bounds
            keyop = t["a"][1]
            from .common import outer_names
            names = outer_names(f, outer, b, keyop)
            ok = names == {"arg:namespace"}
            n += 1
            ctx.check(ok, "C16.R2", RR, "key-from-namespace.%s.%s" % (ct[0], ct[1]), "removal key/bounds derive from: %s" % sorted(names), t["sp"])
    if n < 5:
        raise mir.AnchorMissing("expected >=5 removal calls in remove_replica, found %d" % n)
    # namespace bounds, evaluated (K6'): [Included(ns, min, min), Excluded(succ(ns), min, min)) or Unbounded when ns has no successor
    from . import feval as E
    inl = [x.path for x in f.bodies.values() if x.path.startswith("store::fs::bounds::") and not x.path.endswith("increment_by_one")]
    for path, order in (("store::fs::bounds::RecordsBounds::namespace", "(%s,[0; _],empty)"), ("store::fs::bounds::ByKeyBounds::namespace", "(%s,empty,[0; _])")):
        b = f.body(path)
        ctx.touch(b)
        rows = {}
        for inc in (1, 0):
            def oracle(kind, name, payload, site, inc=inc):
                if kind != "call":
                    return None
                t, args, it = payload
                if name == "increment_by_one":
                    if args[0][0] == "ref":
                        it.write_loc(args[0][1], E.Tok("succ(%s)" % it.tokname(args[0])))
                    return E.Int(inc)
                if name in ("to_bytes", "as_bytes"):
                    return E.Tok("bytes(%s)" % it.tokname(args[0]))
                if name == "new" and callee_matches(t, r"Bytes::new"):
                    return E.Tok("empty")
                return None
            try:
                ret, hp, ev = E.run(f, path, [E.Tok("ns")], {}, oracle, inline=inl)
                rows[inc] = E.describe(ret, f)
            except E.Unsupported as e:
                rows[inc] = "UNSUPPORTED-FORM: %s" % e
        ty = path.split("::")[-2]
        want = {1: "%s(Included(%s),Excluded(%s))" % (ty, order % "bytes(ns)", order % "succ(bytes(ns))"), 0: "%s(Included(%s),Unbounded)" % (ty, order % "bytes(ns)")}
        ctx.check(rows == want, "C16.R2", path, "end-is-excluded-successor-or-unbounded",
                  "by `namespace has a successor`: %s; spec: %s" % (rows, want), b.sp)
    ib = f.body("store::fs::bounds::increment_by_one")
    ctx.touch(ib)
    # the successor primitive the namespace end relies on, evaluated on concrete byte strings (shared with C02.R3)
    from . import C02
    sub = type(ctx)(ctx.prop, ctx.tier, ctx.facts, ctx.cfg)
    C02.r3(sub)
    for o in sub.obligations:
        if "byte-string-table" not in o["key"] or "increment_by_one" not in o["key"]:
            continue
        o = dict(o)
        o["key"] = o["key"].replace("C02.R3", "C16.R2")
        o["rule"] = "C16.R2"
        ctx.obligations.append(o)
        if o["status"] != "holds":
            ctx.violations.append(o)
    ctx.analysed_bodies |= sub.analysed_bodies
    removal_ranges(ctx)
    ctx.floor("C16.R2", 20)


def r3(ctx):
    f = ctx.facts
    b = f.body(RR)
    ctx.touch(b)
    bi, t = one_call(b, r"store::fs::Store::modify")
    guards = [(gbi, gt) for gbi, gt in b.calls() if gt["f"].get("name") == "contains"]
    ok = False
    for gbi, gt in guards:
        recv = trace(b, gt["a"][0])
        if any("open_replicas" in [p[2] for p in o.projs if p[0] == "field"] for o in recv):
            oc = call_outcomes(b, gbi)
            e = oc.get("false")
            if e and b.edge_dominates(e[0], e[1], bi):
                ok = True
    ctx.check(ok, "C16.R3", RR, "open-guard-dominates-transaction", "the removal transaction runs only on the `not open` edge of open_replicas.contains(namespace)", t["sp"])
    # actor: DropReplica closes before removing
    cands = [x for x in f.bodies.values() if x.path.startswith("actor::Actor::on_action") or x.path.startswith("actor::Actor::on_replica_action")]
    found = False
    for x in cands:
        for bi2, t2 in x.calls():
            if callee_matches(t2, r"store::fs::Store::remove_replica$"):
                found = True
                ctx.touch(x)
                closes = [cbi for cbi, ct in x.calls() if ct["f"].get("name") in ("close", "close_replica") and x.dominates(cbi, bi2)]
                ctx.check(bool(closes), "C16.R3", x.path, "actor-closes-before-remove", "remove_replica is dominated by a close of the document", t2["sp"])
    if not found:
        raise mir.AnchorMissing("actor no longer calls Store::remove_replica")
    # the guard is only as good as the bookkeeping behind it: every way the actor (or a direct user)
    # obtains a document's ReplicaInfo from the store marks the document open in `open_replicas`
    # on its success path
    from .common import success_sites
    loaders = set()
    for x in f.bodies.values():
        if x.path.startswith("actor::"):
            for bi2, t2 in x.calls():
                for pth in mir.callee_paths(t2):
                    if pth.startswith("store::fs::Store::") and pth in f.bodies and pth.split("::")[-1] in ("load_replica_info", "open_replica", "new_replica"):
                        loaders.add(pth)
    if not loaders:
        raise mir.AnchorMissing("the actor's open path calls no Store loader (load_replica_info/open_replica)")

    def marks_open(path, depth=2):
        lb = f.bodies[path]
        ctx.touch(lb)
        marks = []
        for bi2, t2 in lb.calls():
            if t2["f"].get("name") == "insert" and t2["a"] and any("open_replicas" in mir.field_path(o) for o in trace(lb, t2["a"][0])):
                marks.append(bi2)
            elif depth > 0:
                for pth in mir.callee_paths(t2):
                    if pth.startswith("store::fs::Store::") and pth in f.bodies and pth != path and marks_open(pth, depth - 1):
                        oc = call_outcomes(lb, bi2)
                        marks.append(bi2)
        if not marks:
            return False
        succ = [sb for sb, how, _ in success_sites(lb)]
        if not succ:
            return False
        region = lb.reach_from_edges([0], avoid=set(marks))
        return not any(sb in region for sb in succ)
    for pth in sorted(loaders):
        ok = marks_open(pth)
        ctx.check(ok, "C16.R3", pth, "open-path-marks-document-open",
                  "every success return passes open_replicas.insert(namespace)" if ok else
                  "the store hands out the document's ReplicaInfo to the actor without recording it in open_replicas: remove_replica's `still open` guard no longer sees documents opened through the actor", f.bodies[pth].sp)
    ctx.floor("C16.R3", 3)


def discarded_results(f, body, types):
    """calls on redb tables (or Store methods) returning Result whose value is never read"""
    out = []
    for bi, t in body.calls():
        d = t["d"]
        if d["p"] or d["l"] == 0:
            continue
        ty = body.locals[d["l"]]["ty"]
        if not ty.startswith("std::result::Result"):
            continue
        from .common import uses_of_local
        uses = uses_of_local(body, d["l"])
        # a drop of the local is not a use; `let _ = x` leaves no use at all
        if not uses:
            out.append((bi, t))
    return out


def r4(ctx):
    f = ctx.facts
    types = tables.table_types(f)
    n = 0
    for b in f.scope(RR, prefix="store::fs::"):
        for bi, t in b.calls():
            ct = tables.call_table(t, types)
            if ct:
                n += 1
        for bi, t in discarded_results(f, b, types):
            ct = tables.call_table(t, types)
            if ct and ct[0] in TOLERATED_DISCARD:
                ctx.ok("C16.R4", RR, "result-discarded.%s.%s" % (ct[0], t["f"].get("name")), "tolerated: %s" % TOLERATED_DISCARD[ct[0]], t["sp"])
                continue
            ctx.bad("C16.R4", RR, "result-discarded.%s.%s" % (ct[0] if ct else "?", t["f"].get("name")),
                    "the Result of this storage call is never inspected: a failed removal leaves rows of the document behind while remove_replica reports success", t["sp"])
    ctx.check(n >= 5, "C16.R4", RR, "storage-calls-inventoried", "%d storage calls inspected for discarded results" % n, f.body(RR).sp)
    ctx.floor("C16.R4", 1)



def eval_protect_task(f, path, hashes):
    """the engine's gc-protect task (an async block in Engine::spawn) evaluated (K6') for one request of the collector.
    hashes: "err" (content_hashes fails) or a list of "ok"/"err" items the iterator yields. Returns (result, log)."""
    from . import feval as E, coll
    C = coll.Collections(f)
    st = {"req": 0}
    log = []

    def oracle(kind, name, payload, site):
        if kind == "call":
            t, args, it = payload
            names = [it.tokname(a) for a in args]
            full = (t["f"].get("full") or "") + (t["f"].get("path") or "")
            if name == "channel" and "mpsc" in full:
                return ("tuple", [E.Tok("hash-tx"), E.Tok("hash-rx")])
            if name == "send" and "oneshot" in full:
                log.append(("reply", names[1] if len(names) > 1 else "?"))
                return E.Ok(E.UNIT)
            if name == "content_hashes":
                return E.Tok("content-hashes-future")
            if name in ("recv", "send") and "mpsc" in full:
                return E.Tok("%s(%s)" % (name, ",".join(n.strip("&*") for n in names)))
            return C.handle(kind, name, payload, site)
        if kind == "await":
            if name.startswith("recv("):
                st["req"] += 1
                return E.Some(E.Tok("reply-tx")) if st["req"] == 1 else E.NONE
            if name == "content-hashes-future":
                if hashes == "err":
                    return E.Err(E.Tok("hashes-error"))
                return E.Ok(coll.seq("iter", [E.Ok(E.Tok("hash%d" % i)) if h == "ok" else E.Err(E.Tok("row-error%d" % i)) for i, h in enumerate(hashes)]))
            if name.startswith("send(hash-tx"):
                log.append(("send", name[len("send(hash-tx,"):-1]))
                return E.Ok(E.UNIT)
        return None
    handler = E.struct(f, "engine::ProtectCallbackHandler", **{"0": E.Tok("requests")})

    def caps(nm, ty):
        # captured variables / parameters by their type, not their name
        if "ProtectCallbackHandler" in ty:
            return E.Some(handler) if "Option<" in ty else handler
        if "SyncHandle" in ty:
            return E.Tok("sync")
        return None
    try:
        out, it = E.run_coroutine(f, path, caps, {}, oracle)
        return E.describe(out, f), log
    except E.Unsupported as e:
        return "UNSUPPORTED-FORM: %s" % e, log


def eval_protect_cb(f, path, start_ok, reply_ok, stream, marker=True):
    """the protect callback handed to the blob store (async block in ProtectCallbackSender::into_cb) evaluated (K6'):
    stream = list of "ok"/"err" items received before the channel closes, "end" = the task's completion marker (marker: whether
    the per-run channel carries Option<Hash> items with None as that marker). Returns (outcome, hashes inserted)."""
    from . import feval as E, coll
    C = coll.Collections(f)
    st = {"i": 0}
    live = []

    def oracle(kind, name, payload, site):
        if kind == "call":
            t, args, it = payload
            names = [it.tokname(a) for a in args]
            full = (t["f"].get("full") or "") + (t["f"].get("path") or "")
            if name == "channel" and "oneshot" in full:
                return ("tuple", [E.Tok("reply-tx"), E.Tok("reply-rx")])
            if name in ("send", "recv") and "mpsc" in full:
                return E.Tok("%s(%s)" % (name, ",".join(n.strip("&*") for n in names)))
            if name == "insert" and "HashSet" in full:
                live.append(names[1])
                return E.Int(1)
            if name == "clone":
                return args[0]
            return C.handle(kind, name, payload, site)
        if kind == "await":
            if name.startswith("send(start_tx"):
                return E.Ok(E.UNIT) if start_ok else E.Err(E.Tok("closed"))
            if name == "reply-rx":
                return E.Ok(E.Tok("hash-rx")) if reply_ok else E.Err(E.Tok("dropped"))
            if name.startswith("recv(hash-rx"):
                i = st["i"]
                st["i"] += 1
                if i >= len(stream):
                    return E.NONE
                if stream[i] == "end":
                    return E.Some(E.Ok(E.NONE)) if marker else E.NONE
                item = E.Tok("hash%d" % i)
                return E.Some(E.Ok(E.Some(item) if marker else item)) if stream[i] == "ok" else E.Some(E.Err(E.Tok("error%d" % i)))
        return None
    def caps(nm, ty):
        if "mpsc::Sender" in ty:
            return E.Tok("start_tx")
        if "HashSet" in ty:
            return E.Tok("live")
        return None
    try:
        out, it = E.run_coroutine(f, path, caps, {}, oracle)
        return E.describe(out, f), live
    except E.Unsupported as e:
        return "UNSUPPORTED-FORM: %s" % e, live


def gc_protect(ctx):
    f = ctx.facts
    # found by what they do, wherever a clean-up moved them: the future that asks the store actor for the content hashes, and
    # the future that produces the collector's verdict
    def builds_outcome(b):
        return any(s2["k"] == "assign" and s2["r"][0] == "agg" and s2["r"][1][0] == "adt" and "ProtectOutcome" in str(s2["r"][1][1]) for _, _, s2 in b.statements())
    cor = [b for p, b in f.bodies.items() if p.startswith("engine::") and not p.startswith("engine::live::") and b.rec.get("closure_kind") == "coroutine"]
    tasks = [b for b in cor if any(t["f"].get("name") == "content_hashes" and callee_matches(t, r"SyncHandle::content_hashes$") for _, t in b.calls())]
    cbs = [b for b in cor if builds_outcome(b)]
    if len(tasks) != 1 or len(cbs) != 1:
        raise mir.AnchorMissing("expected one future in engine.rs that calls SyncHandle::content_hashes (the gc-protect task) and one that builds the ProtectOutcome (the protect callback); found %s / %s" % ([b.path for b in tasks], [b.path for b in cbs]))
    task, cb = tasks[0], cbs[0]
    ctx.touch(task, cb)
    # does the per-run channel distinguish "the list is complete" from "the sender went away"? (item type Option<Hash>: None = complete)
    hadt = f.adt("engine::ProtectCallbackHandler")
    marker = "Option<iroh_blobs::Hash>" in hadt["variants"][0]["fields"][0]["ty"].replace("std::option::", "")
    # the task: a failure to list the hashes is forwarded to the collector (or the collector would see an empty, cleanly ended
    # stream and delete everything the documents reference); otherwise every item - row errors included - is forwarded in order
    got, log = eval_protect_task(f, task.path, "err")
    sent = [e[1] for e in log if e[0] == "send"]
    ctx.check(not got.startswith("UNSUPPORTED") and sent == ["Err(hashes-error)"] and ("reply", "hash-rx") in log, "C16.R5", task.path, "protect-task[content-hashes-fail]",
              "task returns %s, replies %s, sends %s on the per-run channel; spec: the receiving end is handed to the collector and the error is sent on it" % (got, [e[1] for e in log if e[0] == "reply"], sent), task.sp)
    for hs in ([], ["ok", "ok"], ["ok", "err", "ok"]):
        got, log = eval_protect_task(f, task.path, hs)
        sent = [e[1] for e in log if e[0] == "send"]
        want = [("Ok(Some(hash%d))" if marker else "Ok(hash%d)") % i if h == "ok" else "Err(row-error%d)" % i for i, h in enumerate(hs)] + (["Ok(None)"] if marker else [])
        ctx.check(not got.startswith("UNSUPPORTED") and sent == want and ("reply", "hash-rx") in log, "C16.R5", task.path, "protect-task[rows=%s]" % ",".join(hs),
                  "task returns %s, sends %s; spec: %s (every row of the content-hash iterator, errors included, reaches the collector)" % (got, sent, want), task.sp)
    # the callback: Continue only if the request went through and every received item was a hash, all of them marked live
    cells = [(True, True, ["end"]), (True, True, ["ok", "ok", "end"]), (True, True, ["ok", "err"]), (True, True, ["err"]), (False, True, []), (True, False, []),
             # a row that failed to load, although the list was otherwise delivered to its end
             (True, True, ["ok", "err", "ok", "end"]), (True, True, ["err", "end"]),
             # the task was aborted while it streamed (the engine was dropped during a collection run): the channel just closes
             (True, True, ["ok", "ok"]), (True, True, [])]
    for start_ok, reply_ok, stream in cells:
        got, live = eval_protect_cb(f, cb.path, start_ok, reply_ok, stream, marker)
        good = start_ok and reply_ok and "err" not in stream and stream[-1:] == ["end"]
        want = "Continue" if good else "Abort"
        want_live = ["hash%d" % i for i, h in enumerate(stream) if h == "ok"] if good else None
        ok = got == want and (want_live is None or live == want_live)
        ctx.check(ok, "C16.R5", cb.path, "protect-callback[request=%s,reply=%s,stream=%s]" % ("ok" if start_ok else "fails", "ok" if reply_ok else "dropped", ",".join(stream) or "empty"),
                  "returns %s with %s marked live; spec: %s%s (a collection run continues only with every document hash protected: the list must have been received to its end)" % (got, live, want, "" if want_live is None else " with %s" % want_live), cb.sp)

def r5(ctx):
    f = ctx.facts
    a = f.body("store::fs::ContentHashesIterator::all")
    ctx.touch(a)
    c = [t for _, t in a.calls() if t["f"].get("name") in ("all_static", "with_bounds_static", "with_bounds", "range")]
    ctx.check(len(c) == 1 and c[0]["f"].get("name") == "all_static", "C16.R5", a.path, "whole-table-range", "ContentHashesIterator::all uses RecordsRange::all_static (calls: %s)" % [t["f"].get("name") for t in c], a.sp)
    s = f.body("store::fs::ranges::RecordsRange::<'static>::all_static")
    ctx.touch(s)
    rg = [t for _, t in s.calls() if t["f"].get("name") == "range"]
    full = len(rg) == 1 and any("RangeFull" in (x or "") for x in rg[0]["f"].get("targs", [])) or (len(rg) == 1 and "RangeFull" in rg[0]["f"].get("full", ""))
    ctx.check(bool(full), "C16.R5", s.path, "range-full", "records.range(..) over RangeFull", s.sp)
    ch = f.body("store::fs::Store::content_hashes")
    ctx.touch(ch)
    so = [bi for bi, t in ch.calls() if t["f"].get("name") == "snapshot_owned"]
    al = [bi for bi, t in ch.calls() if callee_matches(t, r"ContentHashesIterator::all$")]
    ctx.check(bool(so) and bool(al) and ch.dominates(so[0], al[0]), "C16.R5", ch.path, "snapshot-after-flush", "iterator is created from snapshot_owned() (which flushes first)", ch.sp)
    sn = f.body("store::fs::Store::snapshot_owned")
    ctx.touch(sn)
    fl = [bi for bi, t in sn.calls() if t["f"].get("name") == "flush"]
    def opens_read(t):
        if t["f"].get("name") == "begin_read":
            return True
        return any(t2["f"].get("name") == "begin_read" for p in mir.callee_paths(t) if p in f.bodies and p.startswith("store::fs::") and not p.endswith("::flush")
                   for hb in f.local_callees(p, depth=2, prefix="store::fs::") for _, t2 in hb.calls())
    br = [bi for bi, t in sn.calls() if opens_read(t)]
    ctx.check(bool(fl) and bool(br) and all(sn.dominates(fl[0], x) for x in br), "C16.R5", sn.path, "flush-before-read-tx", "snapshot_owned flushes before opening the read transaction", sn.sp)
    it = f.body("<store::fs::ContentHashesIterator as std::iter::Iterator>::next")
    ctx.touch(it)
    ok = any(t["f"].get("name") == "next" for _, t in it.calls())
    ctx.check(ok, "C16.R5", it.path, "forwards-every-row", "next() forwards the underlying range's next()", it.sp)
    # the iterator evaluated (K6') call after call over scripted table rows - live entries, deletion markers, a failing row:
    # the hash of every live entry is reported wherever it sits (a marker or a failing row in front of it does not end the
    # list), a failing row is reported as a failure (the collector must not run on a partial list), nothing is invented
    from . import feval as E
    for label, rows in (("live,live", ["e0", "e1"]), ("marker,live,live", ["m0", "e1", "e2"]), ("live,marker,marker,live", ["e0", "m1", "m2", "e3"]),
                        ("live,failing-row,live", ["e0", "x1", "e2"]), ("marker", ["m0"]), ("no-rows", [])):
        pos = [0]

        def oracle(kind, name, payload, site, rows=rows):
            if kind != "call":
                return None
            t, args, itp = payload
            names = [itp.tokname(a).strip("&*") for a in args]
            if name == "next" and (callee_matches(t, r"RecordsRange") or (names and names[0].endswith("range"))):
                i = pos[0]
                pos[0] += 1
                if i >= len(rows):
                    return E.NONE
                return E.Some(E.Err(E.Tok("storage-error")) if rows[i].startswith("x") else E.Ok(E.Tok(rows[i])))
            if name == "is_empty" and names:
                return E.Int(1 if names[0].split("(")[-1].rstrip(")").startswith("m") else 0)
            if name == "content_hash" and names:
                return E.Tok("hash(%s)" % names[0])
            if name in ("entry", "record") and names:
                return args[0]
            return None
        out = []
        got_err = None
        heap = {"self": E.struct(f, "store::fs::ContentHashesIterator", range=E.Tok("range"))}
        try:
            for _ in range(len(rows) + 3):
                ret, heap, ev_ = E.run(f, it.path, [E.href("self")], heap, oracle)
                d = E.describe(ret, f)
                out.append(d)
                if d == "None":
                    break
        except E.Unsupported as e:
            got_err = "UNSUPPORTED-FORM: %s" % e
        want_live = ["Some(Ok(hash(%s)))" % r for r in rows if r.startswith("e")]
        live = [o for o in out if o.startswith("Some(Ok(hash(e")]
        errs = [o for o in out if o.startswith("Some(Err(")]
        extra = [o for o in out if o not in live and o not in errs and o != "None" and not o.startswith("Some(Ok(hash(m")]
        okc = got_err is None and live == want_live and len(errs) == sum(1 for r in rows if r.startswith("x")) and not extra and out and out[-1] == "None" and pos[0] >= len(rows)
        ctx.check(okc, "C16.R5", it.path, "reports-every-held-hash[%s]" % label,
                  "rows %s: next() yields %s%s; spec: the hash of every live entry in table order, a failure for the failing row, the end only after the last row" % (rows, out, (" " + got_err) if got_err else ""), it.sp)
    # gc protect: the documents' hashes reach the collector, and any failure on the way aborts the collection run
    gc_protect(ctx)
    ctx.floor("C16.R5", 19)


def r6(ctx):
    """the API layer: a drop request reaches the store actor's drop for that document, and success is reported only if it succeeded"""
    from . import apifw
    apifw.check_forwarder(ctx, "C16.R6", "doc_drop", "DropRequest", ["drop_replica(req.doc_id)"], "Ok(DropResponse)", strict=False)
    apifw.check_client(ctx, "C16.R6", "api::DocsApi::drop_doc", "DropRequest", doc_from="arg.doc_id")
    ctx.floor("C16.R6", 2)


def r7(ctx):
    """"refused while it is open", through the store actor: a drop request for a document that other handles keep open is
    refused *and leaves it open for them* - a refused drop that releases a handle lets a repeated drop erase the document
    under its remaining holder (the drop handler evaluated against the handle count, shared with C14.R6)"""
    from . import C14
    sub = type(ctx)(ctx.prop, ctx.tier, ctx.facts, ctx.cfg)
    C14.r6(sub)
    for o in sub.obligations:
        o = dict(o)
        o["key"] = o["key"].replace("C14.R6", "C16.R7")
        o["rule"] = "C16.R7"
        ctx.obligations.append(o)
        if o["status"] != "holds":
            ctx.violations.append(o)
    ctx.analysed_bodies |= sub.analysed_bodies
    ctx.floor("C16.R7", 4)


def r8(ctx):
    """"once removed, none of its ... peers, policy ... can be observed": a request that names a removed (= unknown) document is
    refused *and writes nothing* - a row written before the refusal is committed with the next flush, because a failed
    transaction body does not roll the shared transaction back (the unknown-document cells of C15.R2 and C17.R2)"""
    from . import C15, C17
    sub = type(ctx)(ctx.prop, ctx.tier, ctx.facts, ctx.cfg)
    C15.r2(sub)
    C17.r2(sub)
    n = 0
    for o in sub.obligations:
        if "unknown-document" not in o["key"]:
            continue
        o = dict(o)
        o["key"] = o["key"].replace("C15.R2", "C16.R8").replace("C17.R2", "C16.R8")
        o["rule"] = "C16.R8"
        ctx.obligations.append(o)
        n += 1
        if o["status"] != "holds":
            ctx.violations.append(o)
    ctx.analysed_bodies |= sub.analysed_bodies
    ctx.floor("C16.R8", 3)


def r9(ctx):
    """what "open" means for the refusal: the handle counting of the store actor (the open / close cells of C14.R3) - the store is
    told that a document is closed exactly when its last handle goes"""
    import re
    from . import C14
    sub = type(ctx)(ctx.prop, ctx.tier, ctx.facts, ctx.cfg)
    C14.r3(sub)
    for o in sub.obligations:
        pass
        o = dict(o)
        o["key"] = re.sub(r"^C\d\d\.R\w+", "C16.R9", o["key"])
        o["rule"] = "C16.R9"
        ctx.obligations.append(o)
        if o["status"] != "holds":
            ctx.violations.append(o)
    ctx.analysed_bodies |= sub.analysed_bodies
    ctx.floor("C16.R9", 8)
    # ... and the API handle in front of it: one Doc handle (and its clones) releases one handle, once (= C14.R5 close cells; F28)
    from . import apifw
    apifw.check_close_idempotent(ctx, "C16.R9")


def r10(ctx):
    """"removing a document is refused while it is open": a refused removal changes nothing - in particular it does not end the
    event streams of the holders that keep the document open (= C12.R9)"""
    from . import apifw
    apifw.check_refused_drop_keeps_subscribers(ctx, "C16.R10")
    ctx.floor("C16.R10", 2)


def r11(ctx):
    """"once removed, none of its ... capability can be observed" - also after the store was reopened: the capability-table
    migrations do not bring a removed document back (002 / 003 evaluated: 003 deletes the version-1 table, and a migration that
    executed is committed whatever row count it reports, so 002 finds nothing to import on the next open; = C18.R4 / R6)"""
    from . import C18
    ctx.share("C16.R11", C18.r4, "C18.R4", keep=lambda k: "commit-iff-Execute" in k, floor=3)
    if hasattr(C18, "r6"):
        ctx.share("C16.R11", C18.r6, "C18.R6", floor=1)

def r12(ctx):
    """"once removed, none of its entries ... can be observed": a removal that was acknowledged is not undone by a later request
    that fails (the failing-body and destructor rows of C06.R4: the shared write transaction is neither dropped nor rolled back)"""
    from . import C06
    C06.share_failing_body(ctx, "C16.R12")

def refused_removal_changes_nothing(ctx, rule):
    """"removing a document is refused while it is open" - and the refusal comes before anything is touched: Store::remove_replica
    evaluated on a document that is marked open returns an error and has made no call on any table (its entries, heads, peers,
    policy and capability are exactly as they were)"""
    f = ctx.facts
    b = f.body(RR)
    got, log = eval_remove_replica(f, 7, True, is_open=True)
    ctx.check(got.startswith("Err") and not log, rule, RR, "refused-removal-changes-nothing", "document open: returns %s, table calls %s; spec: an error, no table touched" % (got, log), b.sp)


def r13(ctx):
    refused_removal_changes_nothing(ctx, "C16.R13")
    ctx.floor("C16.R13", 1)


def r14(ctx):
    """"removing a document is refused while it is open" counts the engine's own handle like any other: the engine holds one exactly
    while it has the document joined - joined is recorded only after its open succeeded, and leaving releases exactly that handle
    (LiveActor::start_sync / leave evaluated against a model of the joined set, = C14.R9)"""
    from . import livefw
    livefw.check_join_leave(ctx, "C16.R14")
    ctx.floor("C16.R14", 4)

PER_DOC_KEY = ("NamespaceId", "[u8; 32]")
ERASERS = ("remove", "remove_entry", "retain", "clear", "take", "swap_remove", "shift_remove", "pop", "invalidate", "drain", "extract_if")


def mem_state(ctx, rule):
    """"once removed, none of its entries, heads, peers, policy or capability can be observed": exhaustiveness over the *in-memory*
    state of the store, next to R1's exhaustiveness over its tables. Every field of store::fs::Store whose type can hold something
    per document (its type, expanded through crate-local structs, names NamespaceId or a 32-byte key) is either erased for the
    removed document inside remove_replica (a remove / retain / clear ... on that field in remove_replica or a helper only it
    calls), or is the set the open guard consults (remove_replica refuses while the document is in it, so a removed document is not),
    or is the public-key cache (a pure function of the id, decided by C03.R10). A cache, memo or mirror added to the store that
    remove_replica forgets is a second source of truth that outlives the document (C01-12, C13-12, C16-12)."""
    f = ctx.facts
    from .mir import trace, field_path
    st = f.adt("store::fs::Store")
    rr = f.body("store::fs::Store::remove_replica")
    sc = f.scope(rr.path, prefix="store::fs")
    ctx.touch(*sc)

    def expand(ty, depth=0):
        out = ty
        if depth < 2:
            for p, a in f.adts.items():
                if p in ty and p.startswith(("store::", "sync::", "heads::", "ranger::")) and p != "store::fs::Store":
                    for v in a["variants"]:
                        for fl in v["fields"]:
                            out += " " + expand(fl["ty"], depth + 1)
        return out
    touched = {}
    for b in sc:
        for bi, t in b.calls():
            nm = t["f"].get("name") or ""
            if not t["a"]:
                continue
            for o in trace(b, t["a"][0]):
                fp = field_path(o)
                if origin_summary(o).startswith("arg:self") and fp:
                    touched.setdefault(fp[0], set()).add(nm)
    n = 0
    for fl in st["variants"][0]["fields"]:
        ty = expand(fl["ty"])
        if not any(k in ty for k in PER_DOC_KEY) or "redb::" in ty:
            continue    # (a database / transaction handle is not in-memory state: what it reaches is the tables of R1)
        n += 1
        ops = touched.get(fl["name"], set())
        if "store::pubkeys::MemPublicKeyStore" in fl["ty"]:
            ctx.ok(rule, "store::fs::Store." + fl["name"], "in-memory-state-dies-with-the-document", "the public-key cache: its answers are a function of the id alone (C03.R10), nothing of a document is kept", st["sp"])
            continue
        erased = sorted(ops & set(ERASERS))
        guard = sorted(ops & {"contains", "contains_key", "get"})
        ok = bool(erased) or (bool(guard) and not (ops - {"contains", "contains_key", "get"}))
        ctx.check(ok, rule, "store::fs::Store." + fl["name"], "in-memory-state-dies-with-the-document",
                  "field of type %s; remove_replica applies %s to it; spec: erased for the removed document (one of %s), or only consulted by the open guard" % (fl["ty"], sorted(ops) or "nothing", "/".join(ERASERS[:4])), rr.sp)
    if n < 2:
        raise mir.AnchorMissing("expected the open set and the key cache among the per-document fields of store::fs::Store, found %d" % n)


def r15(ctx):
    mem_state(ctx, "C16.R15")
    ctx.floor("C16.R15", 2)

def run(ctx):
    ctx.run_rule("C16.R1", r1)
    ctx.run_rule("C16.R2", r2)
    ctx.run_rule("C16.R3", r3)
    ctx.run_rule("C16.R4", r4)
    ctx.run_rule("C16.R5", r5)
    ctx.run_rule("C16.R6", r6)
    ctx.run_rule("C16.R7", r7)
    ctx.run_rule("C16.R8", r8)
    ctx.run_rule("C16.R9", r9)
    ctx.run_rule("C16.R10", r10)
    ctx.run_rule("C16.R11", r11)
    ctx.run_rule("C16.R12", r12)
    ctx.run_rule("C16.R13", r13)
    ctx.run_rule("C16.R14", r14)
    ctx.run_rule("C16.R15", r15)

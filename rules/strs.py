"""Concrete strings and byte strings for the K6' interpreter: a string is the token `str:<text>`, a byte string
that is not UTF-8 text the token `bytes:<hex>`. The oracle below models the std `str` methods the crate's parsers
use (split_once, split, splitn, strip_prefix, ...), hex::{encode,decode}, String::from_utf8 and the formatting
machinery behind write!/format! (core::fmt::Arguments with the compiler's byte-encoded template), so that a
Display / FromStr pair can be evaluated on concrete samples and composed (round trip)."""
import ast
from . import feval as E, coll


def S(x):
    return E.Tok("str:" + x)


def sval(name):
    return name[4:] if isinstance(name, str) and name.startswith("str:") else None


def to_bytes(name):
    if name.startswith("str:"):
        return name[4:].encode()
    if name.startswith("bytes:"):
        return bytes.fromhex(name[6:])
    return None


def from_bytes(b):
    try:
        return S(b.decode("utf-8"))
    except UnicodeDecodeError:
        return E.Tok("bytes:" + b.hex())


def make_oracle(facts, out):
    """oracle for string code; everything written through a Formatter is appended to `out`"""
    C = coll.Collections(facts)

    def o(kind, name, payload, site):
        if kind == "eq":
            a, b = str(name), str(payload)
            if (a.startswith("str:") or a.startswith("bytes:")) and (b.startswith("str:") or b.startswith("bytes:")):
                return to_bytes(a) == to_bytes(b)
            return None
        if kind != "call":
            return None
        t, args, it = payload
        names = [it.tokname(a) for a in args]
        full = (t["f"].get("full") or "") + (t["f"].get("path") or "")
        s0 = sval(names[0]) if names else None

        def pat(i):
            d = it.deref_val(args[i])
            if E.is_int(d):
                return chr(d[1])
            return sval(it.tokname(args[i]))
        # ---- formatting
        if name in ("new_display", "new_debug") and "fmt::rt::Argument" in full:
            d = it.deref_val(args[0])
            return d if d is not None else args[0]
        if name in ("new", "new_const", "new_v1") and "fmt::Arguments" in full:
            return ("tuple", [it.deref_val(a) for a in args])
        if name == "write_fmt":
            A = it.deref_val(args[1])
            if A is None or A[0] != "tuple":
                raise E.Unsupported("write_fmt with unmodelled arguments")
            tpl = it.tokname(A[1][0])
            rv = it.resolve(A[1][1]) if len(A[1]) > 1 else None
            vals = rv[1] if rv and rv[0] == "tuple" else (rv[2] if rv and rv[0] == "seq" else [])
            if not tpl.startswith("const:b"):
                raise E.Unsupported("format template %s" % tpl)
            raw = ast.literal_eval(tpl[len("const:"):])
            i = k = 0
            text = ""
            while i < len(raw):
                c = raw[i]
                if c == 0:
                    break
                if c == 0xC0:
                    v = it.tokname(vals[k]) if k < len(vals) else "?"
                    k += 1
                    if not v.startswith("str:"):
                        raise E.Unsupported("formatting a value that is not a known string (%s)" % v)
                    text += v[4:]
                    i += 1
                elif c < 0x80:
                    text += raw[i + 1:i + 1 + c].decode()
                    i += 1 + c
                else:
                    raise E.Unsupported("format template opcode %#x (only plain {} placeholders and literals are modelled)" % c)
            out.append(text)
            return E.Ok(E.UNIT)
        if name == "write_str" and len(names) > 1 and names[1].startswith("str:"):
            out.append(names[1][4:])
            return E.Ok(E.UNIT)
        # ---- bytes / utf8 / hex
        if name == "from_utf8" and names:
            b = to_bytes(names[0])
            if b is not None:
                try:
                    return E.Ok(S(b.decode("utf-8")))
                except UnicodeDecodeError:
                    return E.Err(E.Tok("utf8-error"))
        if name == "encode" and "hex" in full and names:
            b = to_bytes(names[0])
            if b is not None:
                return S(b.hex())
        if name == "decode" and "hex" in full and s0 is not None:
            try:
                return E.Ok(from_bytes(bytes.fromhex(s0)))
            except ValueError:
                return E.Err(E.Tok("hex-error"))
        if names and to_bytes(names[0]) is not None and name in ("to_vec", "deref", "as_ref", "clone", "to_owned", "to_string", "into", "as_str", "as_bytes", "into_bytes", "borrow", "from", "as_slice", "copy_from_slice", "into_boxed_str"):
            return it.deref_val(args[0])
        # ---- str methods
        if s0 is not None:
            if name in ("split_once", "rsplit_once"):
                p = pat(1)
                i = s0.find(p) if name == "split_once" else s0.rfind(p)
                return E.NONE if i < 0 else E.Some(("tuple", [S(s0[:i]), S(s0[i + len(p):])]))
            if name == "split":
                return coll.seq("iter", [S(x) for x in s0.split(pat(1))])
            if name == "splitn":
                n = it.deref_val(args[1])
                if not E.is_int(n):
                    raise E.Unsupported("splitn with undetermined count")
                return coll.seq("iter", [S(x) for x in s0.split(pat(2), n[1] - 1)])
            if name == "rsplitn":
                n = it.deref_val(args[1])
                return coll.seq("iter", [S(x) for x in reversed(s0.rsplit(pat(2), n[1] - 1))])
            if name == "strip_prefix":
                p = pat(1)
                return E.Some(S(s0[len(p):])) if s0.startswith(p) else E.NONE
            if name == "strip_suffix":
                p = pat(1)
                return E.Some(S(s0[:len(s0) - len(p)])) if s0.endswith(p) else E.NONE
            if name in ("starts_with", "ends_with", "contains"):
                p = pat(1)
                return E.Int(1 if {"starts_with": s0.startswith, "ends_with": s0.endswith, "contains": s0.__contains__}[name](p) else 0)
            if name == "find":
                i = s0.find(pat(1))
                return E.Some(E.Int(len(s0[:i].encode()))) if i >= 0 else E.NONE
            if name == "len":
                return E.Int(len(s0.encode()))
            if name == "is_empty":
                return E.Int(0 if s0 else 1)
            if name in ("trim", "trim_start", "trim_end"):
                return S({"trim": s0.strip, "trim_start": s0.lstrip, "trim_end": s0.rstrip}[name]())
        return C.handle(kind, name, payload, site)
    return o

"""C05 — queries return exactly the entries, order and window the query describes."""
import re
from . import mir, tables
from .mir import trace, origin_summary, callee_matches
from .common import find_calls, one_call, call_outcomes, follow_value, comparisons, TRUTH, flip, leaves
from . import paths as P
from . import C02

EXPLANATION = (
    'Decides structural necessary conditions of C05 from MIR: (R1) IndexKind::from evaluated over {Flat,SingleLatestPerKey}'
    ' x {Any,Exact} x {KeyAuthor,AuthorKey} selects the key-ordered index iff (Flat,Any,KeyAuthor) or SingleLatestPerKey, '
    "sets latest_per_key iff SingleLatestPerKey and passes the query's own filters through; (R2) QueryIterator::new "
    'replaces the key filter by Any only on the branch where the bounds were built from that same filter, and the author '
    'filter / selector reach the key-ordered variant; (R3) prefix bounds are exact (shared with C02.R3); (R4) '
    'LatestPerKeySelector::push keeps the entry with the Greater timestamp within a key, emits on key change and at the '
    'end; (R5) QueryIterator::next is evaluated repeatedly, with its state kept between calls, over abstract table scans on'
    ' 240 (table, index path, include_empty, offset, limit) cells and must yield exactly what the query describes: filters '
    "on the row's own key/author, latest entry per key with deletion markers taking part in the selection and dropped "
    'afterwards unless requested, offset counted over yielded entries only, nothing read once the limit is reached; '
    'value_is_empty and Record::is_empty test the hash against Hash::EMPTY, KeyFilter/AuthorFilter::matches have the '
    'documented meaning; (R6) RecordsByKeyRange::next_filtered evaluated on short index sequences: an index id whose record'
    ' is gone is skipped and the scan continues, a rejected id is not looked up, errors are reported; (R7) the index '
    'writer: entry_put evaluated on {author unknown, newer, equal, older than the head} x {live entry, deletion marker} '
    'writes the (namespace, key, author) index row for every entry (shared with C18.R2). The latest-per-key selection ranks'
    ' entries with equal timestamps by what is left of them (content hash, author), so that the choice does not depend on '
    'the direction of the scan; the author filter of such a query applies to the selected entry (after the grouping), as '
    'the property text and the note on store::Query say. (R8) the store actor forwards GetExact / GetMany one to one (the store-actor handler evaluated with the fields of the request as named tokens and gates / store / replica calls answered by an oracle, each step also failing in turn: the own fields of the request reach the core function in order on the addressed document, nothing is carried out after a failed step, the reply is the result of that function; the SyncHandle method evaluated: one request of its own kind, addressed to its namespace argument, each field one of its own parameters, the reply of the actor returned). (R9) the RPC handlers doc_get_exact / doc_get_many evaluated as forwarders (K14): author, key, include-deleted flag resp. query of the request reach the store actor, a failure is reported to the caller. (R10) the file-format migration carries the records and the key-ordered index. NOT decided: exact result sets for all states.'
)
ASSUMPTIONS = ["redb range iteration order = tuple key order", "tables identified by type"]


IK = "<store::util::IndexKind as std::convert::From<&store::Query>>::from"
QN = "store::fs::query::QueryIterator::new"
QNEXT = "<store::fs::query::QueryIterator as std::iter::Iterator>::next"


EXPLANATION += ' (R11) = C16.R2 for the records table and the key-ordered index. (R12) the point lookup evaluated (row absent / live / deletion marker / failing read x include-deleted; callers read the records table and forward their own arguments). (R13) the public query builder evaluated: every method sets exactly the field it names to exactly its argument; the conversion into Query copies every field.'
EXPLANATION += ' (R14, round 9) = C18.R2 / R4 for migration 004: the key-ordered index is rebuilt exactly when it is empty, with a row for every record.'


def _names(f, adt):
    return [v["name"] for v in f.adt(adt)["variants"]]


def _dec(p, needle, names):
    for k, v in p.decisions:
        if k[0] == "discr" and needle in k[1]:
            if isinstance(v, int):
                return names[v]
            return "other"
    return None


def r1(ctx):
    f = ctx.facts
    b = f.body(IK)
    ctx.touch(b)
    QK = _names(f, "store::QueryKind")
    AF = _names(f, "store::AuthorFilter")
    SB = _names(f, "store::SortBy")
    rows = {}
    for p in P.explore(b):
        qk = _dec(p, "query.kind", QK)
        af = _dec(p, "#AuthorFilter", AF)
        sb = _dec(p, "#SortBy", SB)
        rows[(qk, af, sb)] = P.short(p.ret)
    # expand to the full 2x2x2 table
    full = {}
    for qk in QK:
        for af in AF:
            for sb in SB:
                val = None
                for (a, b2, c), v in rows.items():
                    if a != qk:
                        continue
                    if b2 is not None and b2 != af and not (b2 == "other" and af not in [k[1] for k in rows if k[0] == qk and k[1] not in (None, "other")]):
                        continue
                    if c is not None and c != sb and not (c == "other" and sb not in [k[2] for k in rows if k[0] == qk and k[1] == b2 and k[2] not in (None, "other")]):
                        continue
                    val = v
                full[(qk, af, sb)] = val
    fk = "value:arg:query.filter_key"
    fa = "value:arg:query.filter_author"
    ka_flat = "KeyAuthor{range:%s,author_filter:Any,latest_per_key:0}" % fk
    ak = "AuthorKey{range:%s,key_filter:%s}" % (fa, fk)
    latest = "KeyAuthor{range:%s,author_filter:%s,latest_per_key:1}" % (fk, fa)
    want = {}
    for af in AF:
        for sb in SB:
            want[("Flat", af, sb)] = ka_flat if (af == "Any" and sb == "KeyAuthor") else ak
            want[("SingleLatestPerKey", af, sb)] = latest
    ctx.check(full == want, "C05.R1", IK, "index-selection-table",
              "(kind, author filter, sort) -> index: %s" % "; ".join("%s=>%s" % (k, v) for k, v in sorted(full.items())), b.sp)
    for k in sorted(want):
        ctx.check(full.get(k) == want[k], "C05.R1", IK, "row[%s,%s,%s]" % k, "%s (spec %s)" % (full.get(k), want[k]), b.sp)
    ctx.floor("C05.R1", 9)


def _index_dispatch_body(f):
    """the body that matches on the chosen IndexKind to open the ranges (QueryIterator::new or a
    helper it calls)"""
    from .common import variant_edges
    cands = []
    for b in f.local_callees(QN, depth=2, prefix="store::fs::query"):
        if variant_edges(b, lambda ty: ty.endswith("store::util::IndexKind"), 0):
            cands.append(b)
    if len(cands) != 1:
        raise mir.AnchorMissing("expected one body dispatching on IndexKind under QueryIterator::new, found %d" % len(cands))
    return cands[0]


def r2(ctx):
    """QueryIterator::new evaluated (K6') on every query shape: which index is scanned with which bounds, which filter
    remains to be applied to the rows, and whether the latest-per-key selector is installed"""
    from . import feval as E
    f = ctx.facts
    qn = f.body(QN)
    ctx.touch(*f.scope(QN, prefix="store::"))
    AF, KF = "store::AuthorFilter", "store::KeyFilter"
    n = 0
    for kind in ("Flat/KeyAuthor", "Flat/AuthorKey", "SingleLatestPerKey"):
        for af in ("Any", "Exact"):
            for kf in ("Any", "Exact", "Prefix"):
                n += 1
                scans = []

                def oracle(k, name, payload, site):
                    if k != "call":
                        return None
                    t, args, it = payload
                    names = [it.tokname(a) for a in args]
                    if callee_matches(t, r"store::fs::bounds::RecordsBounds::(author_key|namespace|author_prefix|new|from_start|to_end)$") or callee_matches(t, r"store::fs::bounds::ByKeyBounds::(new|namespace)$"):
                        return E.Tok("%s::%s(%s)" % ((t["f"].get("path") or "").split("::")[-2], name, ",".join(names)))
                    if name == "range" and "Table" in (t["f"].get("full") or "") + (t["f"].get("path") or ""):
                        scans.append((names[0], names[1]))
                        return E.Ok(E.Tok("scan(%s)" % names[0]))
                    if name in ("as_ref",) and names and ("Bounds::" in names[0]):
                        return args[0]
                    if name == "default" and not args:
                        return E.Tok("default()")
                    return None
                qk = E.variant(f, "store::QueryKind", "SingleLatestPerKey", E.Tok("details")) if kind == "SingleLatestPerKey" else \
                    E.variant(f, "store::QueryKind", "Flat", E.struct(f, "store::FlatQuery", sort_by=E.variant(f, "store::SortBy", kind.split("/")[1])))
                afv = E.variant(f, AF, "Any") if af == "Any" else E.variant(f, AF, "Exact", E.Tok("the-author"))
                kfv = E.variant(f, KF, "Any") if kf == "Any" else E.variant(f, KF, kf, E.Tok("the-key"))
                Q = E.struct(f, "store::Query", kind=qk, filter_author=afv, filter_key=kfv, limit=E.NONE, offset=E.Int(0), include_empty=E.Int(0), sort_direction=E.variant(f, "store::SortDirection", "Asc"))
                T = E.struct(f, "store::fs::tables::ReadOnlyTables", records=E.Tok("records"), records_by_key=E.Tok("records_by_key"), namespaces=E.Tok("t3"), latest_per_author=E.Tok("t4"),
                             namespace_peers=E.Tok("t5"), download_policy=E.Tok("t6"), authors=E.Tok("t7"), tx=E.Tok("tx"))
                try:
                    ret, it_ = E.run_it(f, QN, [T, E.Tok("ns"), Q], {}, oracle)
                    got = E.describe(it_.resolve(ret), f)
                    rv = it_.resolve(ret)
                    rng = E.describe(E.field(f, rv[3][0], "store::fs::query::QueryIterator", "range"), f) if rv and rv[0] == "adt" and rv[2] == 0 else got
                except E.Unsupported as ex:
                    got = rng = "UNSUPPORTED-FORM: %s" % ex
                kfs = "Any" if kf == "Any" else "%s(the-key)" % kf
                afs = "Any" if af == "Any" else "Exact(the-author)"
                by_key = kind == "SingleLatestPerKey" or (kind == "Flat/KeyAuthor" and af == "Any")
                if by_key:
                    want_scans = [("records_by_key", "ByKeyBounds::new(ns,%s)" % kfs)]
                    want_rng = "KeyAuthor(RecordsByKeyRange(records,scan(records_by_key)),%s,%s)" % (afs if kind == "SingleLatestPerKey" else "Any", "Some(*)" if kind == "SingleLatestPerKey" else "None")
                elif af == "Exact":
                    want_scans = [("records", "RecordsBounds::author_key(ns,the-author,%s)" % kfs)]
                    want_rng = "AuthorKey(RecordsRange(scan(records)),Any)"
                else:
                    want_scans = [("records", "RecordsBounds::namespace(ns)")]
                    want_rng = "AuthorKey(RecordsRange(scan(records)),%s)" % kfs
                import re as _re
                rng_n = _re.sub(r",Some\((?:[^()]|\([^()]*\))*\)\)$", ",Some(*))", rng)
                ctx.check(got.startswith("Ok(") and scans == want_scans and rng_n == want_rng, "C05.R2", QN, "plan[%s,author=%s,key=%s]" % (kind, af, kf),
                          "scans %s, iterator range %s; spec: scans %s, range %s (the filter consumed by the bounds is not applied twice, the other one is kept; the selector exists iff one entry per key is asked for)" % (scans, rng, want_scans, want_rng), qn.sp)
    ctx.floor("C05.R2", 18)


def r3(ctx):
    sub = type(ctx)(ctx.prop, ctx.tier, ctx.facts, ctx.cfg)
    C02.r3(sub)
    for o in sub.obligations:
        o = dict(o)
        o["rule"] = "C05.R3"
        o["key"] = o["key"].replace("C02.R3", "C05.R3")
        ctx.obligations.append(o)
        if o["status"] != "holds":
            ctx.violations.append(o)
    ctx.analysed_bodies |= sub.analysed_bodies
    ctx.floor("C05.R3", 2)


def r4(ctx):
    f = ctx.facts
    from . import feval as E
    b = f.body("store::util::LatestPerKeySelector::push")
    ctx.touch(b)
    SEL = "store::util::LatestPerKeySelector"
    rows = {}

    def run(entry_some, kept_some, same_key, ts_order, tie=0):
        """tie: how the pushed entry ranks against the kept one by what is left when the timestamps are equal (content hash, author)"""
        def oracle(kind, a, b2, site):
            sa, sb = str(a), str(b2)
            if kind in ("eq", "cmp"):
                if "key" in sa and "key" in sb and "timestamp" not in sa:
                    return same_key if kind == "eq" else (0 if same_key else 1)
                if ("new" in sa and "kept" in sb) or ("kept" in sa and "new" in sb):
                    ts = {"Less": -1, "Equal": 0, "Greater": 1}[ts_order]
                    has_ts = "timestamp" in sa and "timestamp" in sb
                    has_rest = any(w in sa and w in sb for w in ("hash", "author", "value", "record"))
                    if has_ts and has_rest:
                        o = ts if ts != 0 else tie
                    elif has_ts:
                        o = ts
                    elif has_rest:
                        o = tie
                    else:
                        return None
                    if "kept" in sa and "new" in sb:
                        o = -o
                    return (o == 0) if kind == "eq" else o
            return None
        heap = {"self": E.Adt(SEL, 0, {0: E.Some(E.Tok("kept")) if kept_some else E.NONE})}
        arg = E.Some(E.Tok("new")) if entry_some else E.NONE
        ret, h, ev = E.run(f, b.path, [E.href("self"), arg], heap, oracle)
        return E.describe(ret, f), E.describe(h["self"][3].get(0), f)
    try:
        rows[("None", "Some")] = run(False, True, None, None)
        rows[("None", "None")] = run(False, False, None, None)
        rows[("Some", "None")] = run(True, False, None, None)
        rows[("Some", "Some", "other key")] = run(True, True, False, "Less")
        for o in ("Less", "Equal", "Greater"):
            rows[("Some", "Some", "same key", o)] = run(True, True, True, o)
    except E.Unsupported as e:
        ctx.bad("C05.R4", b.path, "selector-table", "UNSUPPORTED-FORM: %s" % e, b.sp)
        ctx.floor("C05.R4", 1)
        return
    want = {
        ("None", "Some"): ("Some(kept)", "None"),
        ("None", "None"): ("Finished", "None"),
        ("Some", "None"): ("Continue", "Some(new)"),
        ("Some", "Some", "other key"): ("Some(kept)", "Some(new)"),
        ("Some", "Some", "same key", "Less"): ("Continue", "Some(kept)"),
        ("Some", "Some", "same key", "Greater"): ("Continue", "Some(new)"),
    }
    got = {k: v for k, v in rows.items() if k in want}
    ctx.check(got == want, "C05.R4", b.path, "selector-table",
              "(pushed, kept[, key, cmp(new.ts,kept.ts)]) -> (emitted, kept afterwards): %s" % sorted(rows.items(), key=str), b.sp)
    eq = rows[("Some", "Some", "same key", "Equal")]
    ctx.check(eq in (("Continue", "Some(kept)"), ("Continue", "Some(new)")), "C05.R4", b.path, "equal-timestamps-keep-one", "%s" % (eq,), b.sp)
    # among equal timestamps the choice is a function of the two entries, not of which one the scan met first: an ascending and a
    # descending scan push them in opposite orders and must end up with the same one (or the *set* a query returns depends on the
    # direction once the emptiness / author filter is applied to the chosen entry)
    try:
        a = run(True, True, True, "Equal", tie=1)      # the pushed entry ranks above the kept one
        b_ = run(True, True, True, "Equal", tie=-1)    # the same two entries met in the other order
        oka = a == ("Continue", "Some(new)") and b_ == ("Continue", "Some(kept)")
        det = "pushed ranks above kept -> %s; pushed ranks below kept -> %s; spec: the higher-ranking entry is kept either way" % (a, b_)
    except E.Unsupported as e:
        oka, det = False, "UNSUPPORTED-FORM: %s" % e
    ctx.check(oka, "C05.R4", b.path, "equal-timestamps-choice-independent-of-scan-direction", det, b.sp)
    ctx.floor("C05.R4", 3)


def run_query(f, kind, rows, include_empty, offset, limit, selector=False):
    """QueryIterator::next evaluated (K6') repeatedly, with persistent iterator state, over an abstract table scan.
    rows: dicts {key, ts, empty, kmatch, amatch} in scan order. Returns the list of items yielded until None."""
    import re as _re
    from . import feval as E
    pos = {"i": 0}

    def digit(sx):
        m = _re.search(r"e(\d+)", sx)
        return int(m.group(1)) if m else None

    def oracle(k, name, payload, site):
        if k == "eq":
            a, b = str(name), str(payload)
            if a.startswith("key(e") and b.startswith("key(e"):
                return rows[digit(a)]["key"] == rows[digit(b)]["key"]
            if ("hash" in a and "EMPTY" in b) or ("hash" in b and "EMPTY" in a):
                i = digit(a + b)
                return None if i is None else bool(rows[i]["empty"])
            return None
        if k == "cmp":
            a, b = str(name), str(payload)
            ia, ib = digit(a), digit(b)
            if ia is None or ib is None or "(e" not in a or "(e" not in b:
                return None
            has_ts = "timestamp(e" in a and "timestamp(e" in b
            has_rest = any(w in a and w in b for w in ("hash(e", "author(e", "value(e", "record(e"))
            # what is left to order two entries of a key by when their timestamps are equal (content hash, author): here the row number
            x = (rows[ia]["ts"] if has_ts else 0, ia if has_rest else 0)
            y = (rows[ib]["ts"] if has_ts else 0, ib if has_rest else 0)
            if has_ts or has_rest:
                return (x > y) - (x < y)
            return None
        if k != "call":
            return None
        t, args, it = payload
        names = [it.tokname(a) for a in args]
        if name == "next_filtered":
            if names[0] != ("rrange" if kind == "AuthorKey" else "krange"):
                raise E.Unsupported("next_filtered on %s" % names[0])
            while pos["i"] < len(rows):
                i = pos["i"]
                pos["i"] += 1
                if rows[i].get("err"):
                    return E.Some(E.Err(E.Tok("storage-error")))
                if kind == "AuthorKey":
                    keyt = ("tuple", [E.Tok("ns"), E.Tok("author(e%d)" % i), E.Tok("rawkey(e%d)" % i)])
                    val = ("tuple", [E.Tok("ts(e%d)" % i), E.Tok("nsig"), E.Tok("asig"), E.Tok("len(e%d)" % i), E.Tok("hash(e%d)" % i)])
                    ok = it.apply(args[2], [keyt, val])
                else:
                    keyt = ("tuple", [E.Tok("ns"), E.Tok("rawkey(e%d)" % i), E.Tok("author(e%d)" % i)])
                    ok = it.apply(args[2], [keyt])
                okd = it.deref_val(ok)
                if not E.is_int(okd):
                    raise E.Unsupported("row filter undetermined (%s)" % E.describe(okd, f))
                if okd[1]:
                    return E.Some(E.Ok(E.Tok("e%d" % i)))
            return E.NONE
        if name == "matches" and names and names[0] in ("kf", "af"):
            want = "rawkey(e" if names[0] == "kf" else "author(e"
            if not names[1].startswith(want):
                raise E.Unsupported("%s filter applied to %s, not to the row's own %s" % ("key" if names[0] == "kf" else "author", names[1], "key" if names[0] == "kf" else "author"))
            return E.Int(1 if rows[digit(names[1])]["kmatch" if names[0] == "kf" else "amatch"] else 0)
        if name == "from" and len(names) == 1 and names[0].startswith("author("):
            return args[0]
        if name == "as_bytes" and "EMPTY" in names[0]:
            return E.Tok("EMPTY")
        if name == "key" and names and _re.fullmatch(r"e\d+", names[0]):
            return E.Tok("key(%s)" % names[0])
        if name == "timestamp" and names and _re.fullmatch(r"e\d+", names[0]):
            return E.Tok("timestamp(%s)" % names[0])
        if name in ("content_hash", "author", "author_bytes", "record", "value") and names and _re.fullmatch(r"e\d+", names[0].strip("&*")):
            return E.Tok("%s(%s)" % ("hash" if name == "content_hash" else ("author" if name.startswith("author") else name), names[0].strip("&*")))
        return None
    Q = E.struct(f, "store::Query", kind=E.Tok("kind"), filter_author=E.Tok("fa"), filter_key=E.Tok("fk"),
                 limit=(E.Some(E.Int(limit)) if limit is not None else E.NONE), offset=E.Int(offset),
                 include_empty=E.Int(1 if include_empty else 0), sort_direction=E.variant(f, "store::SortDirection", "Asc"))
    if kind == "AuthorKey":
        R = E.variant(f, "store::fs::query::QueryRange", "AuthorKey", range=E.Tok("rrange"), key_filter=E.Tok("kf"))
    else:
        sel = E.Some(E.struct(f, "store::util::LatestPerKeySelector", **{"0": E.NONE})) if selector else E.NONE
        R = E.variant(f, "store::fs::query::QueryRange", "KeyAuthor", range=E.Tok("krange"), author_filter=E.Tok("af"), selector=sel)
    heap = {"self": E.struct(f, "store::fs::query::QueryIterator", range=R, query=Q, offset=E.Int(0), count=E.Int(0))}
    out = []
    for _ in range(len(rows) + 3):
        ret, heap, ev = E.run(f, QNEXT, [E.href("self")], heap, oracle)
        d = E.describe(ret, f)
        if d == "None":
            break
        out.append(d)
    return out, pos["i"]


def reference_query(kind, rows, include_empty, offset, limit, selector):
    """what the query describes (from the property text): filter, latest entry per key (deletion markers take part in
    the selection and are dropped afterwards unless requested), then the offset/limit window; a storage error is yielded in place"""
    cand = []
    for i, r in enumerate(rows):
        if r.get("err"):
            cand.append(("err", i))
            break
        if kind == "AuthorKey":
            if r["kmatch"] and (include_empty or not r["empty"]):
                cand.append(("ok", i))
        elif r["amatch"] or selector:
            # a latest-per-key query selects among the entries of ALL authors ("the entry with the greatest timestamp among all
            # authors"; store::Query: "the author filter is applied *after* the grouping"); a flat query filters every row
            cand.append(("ok", i))
    if kind != "AuthorKey":
        if selector:
            out = []
            for st, i in cand:
                if st == "err":
                    out.append((st, i))
                elif out and out[-1][0] == "ok" and rows[out[-1][1]]["key"] == rows[i]["key"]:
                    # the greatest timestamp; among equal ones a choice that does not depend on the order of the scan (the oracle
                    # ranks such entries by their row number, standing for content hash / author)
                    if (rows[i]["ts"], i) > (rows[out[-1][1]]["ts"], out[-1][1]):
                        out[-1] = (st, i)
                else:
                    out.append((st, i))
            cand = [(st, i) for st, i in out if st == "err" or rows[i]["amatch"]]
        cand = [(st, i) for st, i in cand if st == "err" or include_empty or not rows[i]["empty"]]
    res = []
    skipped = 0
    for st, i in cand:
        if limit is not None and len(res) >= limit:
            break
        if st == "ok" and skipped < offset:
            skipped += 1
            continue
        res.append("Some(Ok(e%d))" % i if st == "ok" else "Some(Err(storage-error))")
        if st == "err":
            break
    return res


def r5(ctx):
    f = ctx.facts
    b = f.body(QNEXT)
    fam = f.scope(QNEXT, prefix="store::fs::query::")
    ctx.touch(*fam)
    from . import feval as E

    def R(key, ts, empty=0, kmatch=1, amatch=1, err=0):
        return dict(key=key, ts=ts, empty=empty, kmatch=kmatch, amatch=amatch, err=err)
    tables_ = {
        "mixed": [R("a", 1), R("a", 5, empty=1), R("b", 2, kmatch=0), R("c", 3, amatch=0), R("c", 1), R("d", 4, empty=1), R("e", 2)],
        "tombstone-last": [R("a", 2), R("b", 1), R("b", 3, empty=1)],
        "all-empty": [R("a", 1, empty=1), R("b", 1, empty=1)],
        "error-midway": [R("a", 1), R("b", 1, err=1), R("c", 1)],
        "empty-table": [],
    }
    n = 0
    bad = []
    unsupported = None
    for tname, rows in tables_.items():
        for kind, selector in (("AuthorKey", False), ("KeyAuthor", False), ("KeyAuthor", True)):
            for include_empty in (0, 1):
                for offset in (0, 1, 2, 3):
                    for limit in (None, 0, 1, 2):
                        if tname in ("empty-table", "all-empty", "error-midway") and (offset == 3 or limit == 0):
                            continue
                        if tname == "error-midway" and selector:
                            continue
                        want = reference_query(kind, rows, include_empty, offset, limit, selector)
                        n += 1
                        try:
                            got, consumed = run_query(f, kind, rows, include_empty, offset, limit, selector)
                        except E.Unsupported as e:
                            got, consumed = ["UNSUPPORTED-FORM"], 0
                            unsupported = str(e)
                        if any("Err" in x for x in want):
                            # what follows a storage error is not specified by the property: compare up to the error
                            k = next((i for i, x in enumerate(got) if "Err" in x), len(got) - 1)
                            got = got[:k + 1]
                        if got != want:
                            bad.append("%s/%s%s include_empty=%d offset=%d limit=%s: yields %s, the query describes %s" % (tname, kind, "+latest-per-key" if selector else "", include_empty, offset, limit, got, want))
                        elif limit == 0 and consumed:
                            bad.append("%s/%s limit=0 still reads %d rows" % (tname, kind, consumed))
    ctx.check(not bad, "C05.R5", QNEXT, "query-window-table",
              "QueryIterator::next evaluated on %d (table, index path, include_empty, offset, limit) cells; deviating: %s%s" % (n, bad[:4], (" (%s)" % unsupported) if unsupported else ""), b.sp)
    ctx.check(n >= 230, "C05.R5", QNEXT, "query-window-table.cells", "%d cells" % n, b.sp)
    ve = f.body("store::fs::query::value_is_empty")
    ri = f.body("sync::Record::is_empty")
    ctx.touch(ve, ri)
    def empt(body):
        for bi, t in body.calls():
            if t["f"].get("name") == "eq":
                s = set()
                for a in t["a"]:
                    for o in leaves(body, a):
                        s.add(origin_summary(o) + "." + ".".join(mir.field_path(o)))
                return s
        return set()
    a, b2 = empt(ve), empt(ri)
    ok = any("iroh_blobs::Hash::EMPTY" in x for x in a) and any("iroh_blobs::Hash::EMPTY" in x for x in b2) and any(x.endswith(".4") for x in a) and any(x.endswith(".hash") for x in b2)
    ctx.check(ok, "C05.R5", ve.path, "empty=hash==Hash::EMPTY(both)", "value_is_empty compares %s; Record::is_empty compares %s" % (sorted(a), sorted(b2)), ve.sp)
    # filters
    kf = f.body("store::KeyFilter::matches")
    ctx.touch(kf)
    KF = _names(f, "store::KeyFilter")
    rows = {}
    for p in P.explore(kf):
        v = _dec(p, "arg:self", KF)
        rows[v] = P.short(p.ret)
        if p.ret[0] == "call" and p.ret[1] == "starts_with":
            t = p.ret[2]
            okp = {origin_summary(o) for o in trace(kf, t["a"][0])} == {"arg:key"} and {origin_summary(o) for o in trace(kf, t["a"][1])} == {"arg:self"}
            ctx.check(okp, "C05.R5", kf.path, "Prefix=key.starts_with(prefix)", "receiver/argument order", t["sp"])
    ctx.check(rows == {"Any": "1", "Exact": "call:eq", "Prefix": "call:starts_with"}, "C05.R5", kf.path, "filter-table", "%s" % rows, kf.sp)
    af = f.body("store::AuthorFilter::matches")
    ctx.touch(af)
    AFn = _names(f, "store::AuthorFilter")
    rows = {_dec(p, "arg:self", AFn): P.short(p.ret) for p in P.explore(af)}
    ctx.check(rows == {"Any": "1", "Exact": "call:eq"}, "C05.R5", af.path, "filter-table", "%s" % rows, af.sp)
    ctx.floor("C05.R5", 6)


def r6(ctx):
    """RecordsByKeyRange::next_filtered evaluated (K6') on short index sequences whose rows are found /
    stale (record gone) / rejected by the filter / failing: a stale id is skipped and the scan goes on."""
    from . import feval as E
    f = ctx.facts
    NF = "store::fs::ranges::RecordsByKeyRange::next_filtered"
    nf = f.body(NF)
    ctx.touch(nf)
    impls = [p for p in f.bodies if p.endswith("as store::fs::ranges::RangeExt<K, V>>::next_filter_map")]
    if len(impls) != 1:
        raise mir.AnchorMissing("expected one impl of RangeExt::next_filter_map, found %d" % len(impls))
    ctx.touch(f.body(impls[0]))
    bind = {"store::fs::ranges::RangeExt::next_filter_map": impls[0]}

    def scen(rows, direction="Asc"):
        st = {"i": 0, "gets": [], "filters": [], "dir": None}

        def digit(sx):
            d = [c for c in sx if c.isdigit()]
            return int(d[0]) if d else None

        def oracle(kind, name, payload, site):
            if kind != "call":
                return None
            t, args, it = payload
            names = [it.tokname(a) for a in args]
            if name in ("next", "next_back") and names and names[0].startswith("idx"):
                st["dir"] = name
                i = st["i"]
                st["i"] += 1
                if i >= len(rows):
                    return E.NONE
                if rows[i] == "ioerr":
                    return E.Some(E.Err(E.Tok("index-error")))
                return E.Some(E.Ok(("tuple", [E.Tok("kg%d" % i), E.Tok("vg%d" % i)])))
            if name == "value" and names[0].startswith("kg"):
                i = names[0][2:]
                return ("tuple", [E.Tok("ns" + i), E.Tok("key" + i), E.Tok("author" + i)])
            if name == "value" and names[0].startswith("vg"):
                return E.UNIT
            if name == "value" and names[0].startswith("row"):
                return E.Tok("val" + names[0][3:])
            if name in ("call", "call_mut", "call_once") and names and names[0] == "filter":
                i = digit(names[1])
                st["filters"].append(i)
                return E.Int(0 if (i is not None and rows[i] == "rejected") else 1)
            if name == "get" and "records" in names[0]:
                i = digit(names[1])
                st["gets"].append((i, names[1]))
                if i is None:
                    raise E.Unsupported("record lookup under an id not derived from the index row: %s" % names[1])
                r = rows[i]
                if r == "stale":
                    return E.Ok(E.NONE)
                if r == "geterr":
                    return E.Err(E.Tok("storage-error"))
                return E.Ok(E.Some(E.Tok("row%d" % i)))
            if callee_matches(t, r"store::fs::into_entry$"):
                return E.Tok("entry(%s)" % ",".join(names))
            return None
        heap = {"self": E.struct(f, "store::fs::ranges::RecordsByKeyRange", records_table=E.Tok("records"), by_key_range=E.Tok("idx")),
                "dir": E.variant(f, "store::SortDirection", direction), "filter": E.Tok("filter")}
        try:
            ret, hp, ev = E.run(f, NF, [E.href("self"), E.href("dir"), E.Tok("filter")], heap, oracle, bind=bind)
            return E.describe(ret, f), st
        except E.Unsupported as e:
            return "UNSUPPORTED-FORM: %s" % e, st

    def ent(i):
        return "Some(Ok(entry((ns%d,author%d,key%d),val%d)))" % (i, i, i, i)
    table = [
        (("found",), "Asc", ent(0)),
        (("found",), "Desc", ent(0)),
        (("stale", "found"), "Asc", ent(1)),
        (("stale", "stale", "found"), "Asc", ent(2)),
        (("stale",), "Asc", "None"),
        ((), "Asc", "None"),
        (("rejected", "found"), "Asc", ent(1)),
        (("geterr", "found"), "Asc", "Some(Err"),
        (("ioerr",), "Asc", "Some(Err"),
    ]
    for rows, direction, want in table:
        got, st = scen(list(rows), direction)
        ok = got == want or (want == "Some(Err" and got.startswith("Some(Err"))
        # the record is looked up under the id permuted from the index key (namespace, key, author) -> (namespace, author, key)
        ok = ok and all(nm == "(ns%d,author%d,key%d)" % (i, i, i) for i, nm in st["gets"])
        ok = ok and st["dir"] == ("next" if direction == "Asc" else "next_back")
        if "rejected" in rows:
            ok = ok and all(rows[i] != "rejected" for i, _ in st["gets"])
        ctx.check(ok, "C05.R6", NF, "index-scan[%s,%s]" % ("+".join(rows) or "empty", direction),
                  "returns %s (spec %s), record lookups %s, advanced with %s; a by-key id whose record is gone is skipped and the scan continues, a rejected id is not looked up, errors are reported" % (got, want, st["gets"], st["dir"]), nf.sp)
    ctx.floor("C05.R6", 9)


def r7(ctx):
    """the writer of the key-ordered index: entry_put evaluated (shared with C18.R2) - every stored entry, deletion markers
    included, gets its (namespace, key, author) index row, or the key-ordered access path answers differently from the
    author-ordered one"""
    from . import C18
    sub = type(ctx)(ctx.prop, ctx.tier, ctx.facts, ctx.cfg)
    C18.r2(sub)
    n = 0
    for o in sub.obligations:
        from .engine import failed_closed
        if ("entry_put[" not in o["key"] or "below-head" in o["key"]) and not failed_closed(o):
            continue
        o = dict(o)
        o["key"] = o["key"].replace("C18.R2", "C05.R7")
        o["rule"] = "C05.R7"
        ctx.obligations.append(o)
        n += 1
        if o["status"] != "holds":
            ctx.violations.append(o)
    ctx.analysed_bodies |= sub.analysed_bodies
    # the other store call of an insert, the prune: it may drop index ids only of the records it removed (shared with C02.R1)
    from . import C02
    sub2 = type(ctx)(ctx.prop, ctx.tier, ctx.facts, ctx.cfg)
    C02.r1(sub2)
    for o in sub2.obligations:
        if "index-ids-of-surviving-records-kept" not in o["key"]:
            continue
        o = dict(o)
        o["key"] = o["key"].replace("C02.R1", "C05.R7")
        o["rule"] = "C05.R7"
        ctx.obligations.append(o)
        if o["status"] != "holds":
            ctx.violations.append(o)
    ctx.analysed_bodies |= sub2.analysed_bodies
    ctx.floor("C05.R7", 10)


def r8(ctx):
    """point lookups and queries through the asynchronous handle are the store's, with the request's own author, key,
    include-deleted flag resp. query"""
    from . import actorfw
    actorfw.claim(ctx, "C05.R8", handlers=("GetExact", "GetMany"), clients=("get_exact", "get_many"))
    actorfw.check_stream(ctx, "C05.R8")        # the task that streams a query's rows to the caller: every row, in order
    ctx.floor("C05.R8", 14)


def r9(ctx):
    """the RPC layer: point lookups and queries of the public API reach the store actor with the own fields of the request"""
    from . import apifw
    apifw.check_forwarder(ctx, "C05.R9", "doc_get_exact", "GetExactRequest", ["get_exact(req.doc_id,req.author,req.key,req.include_empty)"], "Ok(GetExactResponse(result-of-get_exact))")
    apifw.check_stream_forwarder(ctx, "C05.R9", "doc_get_many", "GetManyRequest", "get_many(req.doc_id,req.query,reply)")
    apifw.check_client(ctx, "C05.R9", "api::Doc::get_exact", "GetExactRequest")
    apifw.check_client(ctx, "C05.R9", "api::Doc::get_many", "GetManyRequest")
    ctx.floor("C05.R9", 4)


def r10(ctx):
    """both access paths of a store written in the older file format survive the format migration that runs on open"""
    from . import redbmig
    redbmig.check(ctx, "C05.R10", only={"records-by-key-1", "records-1"})
    ctx.floor("C05.R10", 1)


def r11(ctx):
    """the key-ordered access path of one document survives what happens to its neighbours in the shared tables: removing a
    document erases exactly that document's rows of the records table and of the key-ordered index (= C16.R2, decided on sample
    ids of this and the neighbouring documents)"""
    from . import C16
    ctx.share("C05.R11", C16.r2, "C16.R2", keep=lambda k: "records" in k, floor=2)


def r12(ctx):
    """"point lookups agree with queries": the point lookup (store::fs::get_exact and its callers Store::get_exact / the replica's
    get_exact) evaluated on row absent / live / deletion marker x include-deleted: it reads the row of exactly (this document,
    this author, this key) from the records table and applies the same emptiness rule as the query path; a failing read is an error"""
    from . import feval as E, coll
    f = ctx.facts
    GE = "store::fs::get_exact"
    b = f.body(GE)
    ctx.touch(b)
    for row in ("absent", "live", "marker", "read-fails"):
        for inc in (0, 1):
            C = coll.Collections(f)
            log = []

            def oracle(kind, name, payload, site):
                if kind != "call":
                    return None
                t, args, it = payload
                names = [it.tokname(a).strip("&*") for a in args]
                if name == "get" and len(args) == 2 and names[0] == "records-table":
                    log.append(("get", E.describe(it.resolve(args[1]), f)))
                    if row == "read-fails":
                        return E.Err(E.Tok("storage-error"))
                    return E.Ok(E.NONE if row == "absent" else E.Some(E.Tok("guard")))
                if name == "value" and names and names[0] == "guard":
                    return E.Tok("row")
                if mir.callee_matches(t, r"store::fs::into_entry$"):
                    log.append(("into_entry", E.describe(it.resolve(args[0]), f), names[1]))
                    return E.Tok("entry")
                if name == "is_empty" and names and names[0] == "entry":
                    return E.Int(1 if row == "marker" else 0)
                if name in ("as_bytes", "as_ref") and len(args) == 1:
                    return E.Tok("%s" % names[0])
                return C.handle(kind, name, payload, site)
            key = "point-lookup[row=%s,include_empty=%d]" % (row, inc)
            try:
                ret, itp = E.run_it(f, GE, [E.href("t"), E.Tok("ns"), E.Tok("author"), E.Tok("key"), E.Int(inc)], {"t": E.Tok("records-table")}, oracle)
                got = E.describe(itp.resolve(ret), f)
            except E.Unsupported as e:
                ctx.bad("C05.R12", GE, key, "UNSUPPORTED-FORM: %s" % e, b.sp)
                continue
            want = "Err" if row == "read-fails" else ("Ok(Some(entry))" if (row == "live" or (row == "marker" and inc)) else "Ok(None)")
            gets = [x for x in log if x[0] == "get"]
            ok = got.startswith(want) and gets == [("get", "(ns,author,key)")] and all(x[1] == "(ns,author,key)" and x[2] == "row" for x in log if x[0] == "into_entry")
            ctx.check(ok, "C05.R12", GE, key, "returns %s after %s; spec: %s, reading the row of (document, author, key) once" % (got, log, want), b.sp)
    # callers hand their own arguments on, and read the records table
    n = 0
    for body in f.bodies.values():
        for bi, t in body.calls():
            if mir.callee_matches(t, r"store::fs::get_exact$") and body.path != GE:
                n += 1
                ctx.touch(body)
                # the table handed over is told by its key/value types (all tables of the store differ in them)
                types = tables.table_types(f)
                targ = " ".join(t["f"].get("targs") or []) + " " + (t["f"].get("full") or "")
                m = tables.TABLE_RX.search(tables.norm(targ))
                which = [nm for nm, kv in types.items() if m and tables.norm(m.group(3)) == kv]
                if not which and re.search(r"ReadableTable<RecordsId<[^>]*>, RecordsValue<[^>]*>>", targ):
                    which = ["records"]     # a caller that is itself generic over the reading trait, at the records table's key / value types
                ctx.check(which == ["records"], "C05.R12", body.path, "point-lookup-reads-the-records-table", "table argument by type: %s (%s)" % (which, m.group(0) if m else targ[:120]), t["sp"])
    if n < 2:
        raise mir.AnchorMissing("expected >= 2 callers of store::fs::get_exact (Store::get_exact, parents), found %d" % n)
    sg = f.body("store::fs::Store::get_exact")
    ctx.touch(sg)
    c = [t for _, t in sg.calls() if mir.callee_matches(t, r"store::fs::get_exact$")]
    if len(c) == 1:
        got = [sorted({mir.origin_summary(o) for o in mir.trace(sg, c[0]["a"][i])}) for i in (1, 2, 3, 4)]
        ctx.check(got == [["arg:namespace"], ["arg:author"], ["arg:key"], ["arg:include_empty"]], "C05.R12", sg.path, "forwards-its-own-arguments", "%s" % got, sg.sp)
    else:
        ctx.bad("C05.R12", sg.path, "forwards-its-own-arguments", "%d calls of get_exact" % len(c), sg.sp)
    ctx.floor("C05.R12", 11)


def r13(ctx):
    """"for every query": the query a caller describes through the public builder is the query that is run - every builder method
    (store::QueryBuilder) evaluated on a builder whose fields are distinct tokens: it sets exactly the field it names to exactly its
    argument (key_exact -> KeyFilter::Exact(key), key_prefix -> Prefix, author -> AuthorFilter::Exact, limit -> Some(n), ...) and
    leaves every other field alone; the conversion into store::Query copies every field to the field of the same name"""
    from . import feval as E, coll
    f = ctx.facts
    QB = "store::QueryBuilder"
    fields0 = {"kind": "kind0", "filter_author": "fa0", "filter_key": "fk0", "limit": "limit0", "offset": "offset0", "include_empty": "ie0", "sort_direction": "sd0"}
    C = coll.Collections(f)

    def oracle(kind, name, payload, site):
        if kind != "call":
            return None
        t, args, it = payload
        if name in ("as_ref", "to_vec", "into", "from", "to_owned", "copy_from_slice") and len(args) == 1:
            nm = it.tokname(args[0]).strip("&*")
            if nm.startswith("arg."):
                return E.Tok(nm)
        return C.handle(kind, name, payload, site)

    def render(itp, v, adt):
        v = itp.resolve(v)
        out = {}
        for i, fd in enumerate(f.adt(adt)["variants"][0]["fields"]):
            out[fd["name"]] = E.describe(itp.resolve(v[3].get(i)), f) if (v is not None and v[0] == "adt") else "?"
        return out
    # private helpers of the module are evaluated also when all their arguments are opaque (a shared `key_filter_bytes(key)`)
    helpers = tuple(p for p, hb in f.bodies.items() if p.startswith("store::") and not p.startswith("store::fs::") and not hb.rec.get("derived") and hb.kind != "closure")
    spec = [
        ("store::QueryBuilder::<K>::include_empty", [], {"include_empty": "1"}),
        ("store::QueryBuilder::<K>::key_exact", ["arg.key"], {"filter_key": "Exact(arg.key)"}),
        ("store::QueryBuilder::<K>::key_prefix", ["arg.key"], {"filter_key": "Prefix(arg.key)"}),
        ("store::QueryBuilder::<K>::author", ["arg.author"], {"filter_author": "Exact(arg.author)"}),
        ("store::QueryBuilder::<K>::limit", ["arg.limit"], {"limit": "Some(arg.limit)"}),
        ("store::QueryBuilder::<K>::offset", ["arg.offset"], {"offset": "arg.offset"}),
        ("store::QueryBuilder::<store::FlatQuery>::sort_by", ["arg.sort_by", "arg.direction"], {"kind": "FlatQuery(arg.sort_by)", "sort_direction": "arg.direction"}),
        ("store::QueryBuilder::<store::SingleLatestPerKeyQuery>::sort_direction", ["arg.direction"], {"sort_direction": "arg.direction"}),
    ]
    for path, params, changes in spec:
        b = f.body(path)
        ctx.touch(b)
        kindv = E.struct(f, "store::FlatQuery", sort_by=E.Tok("sb0")) if "FlatQuery" in path else E.Tok("kind0")
        init = {k: (kindv if k == "kind" else E.Tok(v)) for k, v in fields0.items()}
        want = dict(fields0)
        if "FlatQuery" in path:
            want["kind"] = "FlatQuery(sb0)"
        want.update(changes)
        key = "builder[%s]" % path.split("::")[-1]
        try:
            ret, itp = E.run_it(f, path, [E.struct(f, QB, **init)] + [E.Tok(x) for x in params], {}, oracle, inline=helpers)
            got = render(itp, ret, QB)
        except E.Unsupported as e:
            ctx.bad("C05.R13", path, key, "UNSUPPORTED-FORM: %s" % e, b.sp)
            continue
        ctx.check(got == want, "C05.R13", path, key, "builder fields afterwards %s; spec %s" % (got, want), b.sp)
    for path, wrap in (("<store::Query as std::convert::From<store::QueryBuilder<store::FlatQuery>>>::from", "Flat"), ("<store::Query as std::convert::From<store::QueryBuilder<store::SingleLatestPerKeyQuery>>>::from", "SingleLatestPerKey")):
        b = f.body(path)
        ctx.touch(b)
        init = {k: E.Tok(v) for k, v in fields0.items()}
        want = dict(fields0)
        want["kind"] = "%s(kind0)" % wrap
        key = "builder-into-query[%s]" % wrap
        try:
            ret, itp = E.run_it(f, path, [E.struct(f, QB, **init)], {}, oracle)
            got = render(itp, ret, "store::Query")
        except E.Unsupported as e:
            ctx.bad("C05.R13", path, key, "UNSUPPORTED-FORM: %s" % e, b.sp)
            continue
        ctx.check(got == want, "C05.R13", path, key, "query fields %s; spec %s" % (got, want), b.sp)
    # the shorthands Query::author / key_exact / key_prefix are the builder methods of the same name on Query::all()
    for nm in ("author", "key_exact", "key_prefix"):
        b = f.body("store::Query::" + nm)
        ctx.touch(b)
        calls = [t for _, t in b.calls() if t["f"].get("name") == nm and mir.callee_matches(t, r"store::QueryBuilder")]
        ok = len(calls) == 1 and {origin_summary(o) for o in trace(b, calls[0]["a"][1])} == {"arg:%s" % (b.local_name(1) or "")}
        ctx.check(ok, "C05.R13", b.path, "shorthand-is-the-builder-method", "%d calls of QueryBuilder::%s with its own argument" % (len(calls), nm), b.sp)
    ctx.floor("C05.R13", 13)


def r14(ctx):
    """"the two physical access paths give the same set" also on a store whose key-ordered index had to be rebuilt: migration 004
    executes exactly when the index is empty and gives every record its index row (= C18.R2 / R4 for that migration)"""
    from . import C18
    ctx.share("C05.R14", C18.r2, "C18.R2", keep=lambda k: "by-key" in k or "004" in k or "by_key" in k, floor=1)
    ctx.share("C05.R14", C18.r4, "C18.R4", keep=lambda k: "004" in k or "by_key" in k or "run_migration" in k, floor=1)

def run(ctx):
    ctx.run_rule("C05.R1", r1)
    ctx.run_rule("C05.R2", r2)
    ctx.run_rule("C05.R3", r3)
    ctx.run_rule("C05.R4", r4)
    ctx.run_rule("C05.R5", r5)
    ctx.run_rule("C05.R6", r6)
    ctx.run_rule("C05.R7", r7)
    ctx.run_rule("C05.R8", r8)
    ctx.run_rule("C05.R9", r9)
    ctx.run_rule("C05.R10", r10)
    ctx.run_rule("C05.R11", r11)
    ctx.run_rule("C05.R12", r12)
    ctx.run_rule("C05.R13", r13)
    ctx.run_rule("C05.R14", r14)

"""C05 — queries return exactly the entries, order and window the query describes."""
import re
from . import mir, tables
from .mir import trace, origin_summary, callee_matches
from .common import find_calls, one_call, call_outcomes, follow_value, comparisons, TRUTH, flip, leaves
from . import paths as P
from . import C02

EXPLANATION = (
    "Decides structural necessary conditions of C05 from MIR: (R1) IndexKind::from evaluated over {Flat,SingleLatestPerKey} x "
    "{Any,Exact} x {KeyAuthor,AuthorKey} selects the key-ordered index iff (Flat,Any,KeyAuthor) or SingleLatestPerKey, sets "
    "latest_per_key iff SingleLatestPerKey and passes the query's own filters through; (R2) QueryIterator::new replaces the key "
    "filter by Any only on the branch where the bounds were built from that same filter, and the author filter / selector reach "
    "the key-ordered variant; (R3) prefix bounds are exact (shared with C02.R3); (R4) LatestPerKeySelector::push keeps the entry "
    "with the Greater timestamp within a key, emits on key change and at the end; (R5) QueryIterator::next: nothing is fetched "
    "once the limit is reached, only Some(Ok(_)) items are skipped for the offset, both physical paths honour include_empty, "
    "value_is_empty and Record::is_empty test the hash against Hash::EMPTY, KeyFilter/AuthorFilter::matches have the documented "
    "meaning; (R6) a by-key index id without a record is skipped, not an error. NOT decided: exact result sets for all states."
)
ASSUMPTIONS = ["redb range iteration order = tuple key order", "tables identified by type"]

IK = "<store::util::IndexKind as std::convert::From<&store::Query>>::from"
QN = "store::fs::query::QueryIterator::new"
QNEXT = "<store::fs::query::QueryIterator as std::iter::Iterator>::next"


def _names(f, adt):
    return [v["name"] for v in f.adt(adt)["variants"]]


def _dec(p, needle, names):
    for k, v in p.decisions:
        if k[0] == "discr" and needle in k[1]:
            if isinstance(v, int):
                return names[v]
            return "other"
    return None


def r1(ctx):
    f = ctx.facts
    b = f.body(IK)
    ctx.touch(b)
    QK = _names(f, "store::QueryKind")
    AF = _names(f, "store::AuthorFilter")
    SB = _names(f, "store::SortBy")
    rows = {}
    for p in P.explore(b):
        qk = _dec(p, "query.kind", QK)
        af = _dec(p, "#AuthorFilter", AF)
        sb = _dec(p, "#SortBy", SB)
        rows[(qk, af, sb)] = P.short(p.ret)
    # expand to the full 2x2x2 table
    full = {}
    for qk in QK:
        for af in AF:
            for sb in SB:
                val = None
                for (a, b2, c), v in rows.items():
                    if a != qk:
                        continue
                    if b2 is not None and b2 != af and not (b2 == "other" and af not in [k[1] for k in rows if k[0] == qk and k[1] not in (None, "other")]):
                        continue
                    if c is not None and c != sb and not (c == "other" and sb not in [k[2] for k in rows if k[0] == qk and k[1] == b2 and k[2] not in (None, "other")]):
                        continue
                    val = v
                full[(qk, af, sb)] = val
    fk = "value:arg:query.filter_key"
    fa = "value:arg:query.filter_author"
    ka_flat = "KeyAuthor{range:%s,author_filter:Any,latest_per_key:0}" % fk
    ak = "AuthorKey{range:%s,key_filter:%s}" % (fa, fk)
    latest = "KeyAuthor{range:%s,author_filter:%s,latest_per_key:1}" % (fk, fa)
    want = {}
    for af in AF:
        for sb in SB:
            want[("Flat", af, sb)] = ka_flat if (af == "Any" and sb == "KeyAuthor") else ak
            want[("SingleLatestPerKey", af, sb)] = latest
    ctx.check(full == want, "C05.R1", IK, "index-selection-table",
              "(kind, author filter, sort) -> index: %s" % "; ".join("%s=>%s" % (k, v) for k, v in sorted(full.items())), b.sp)
    for k in sorted(want):
        ctx.check(full.get(k) == want[k], "C05.R1", IK, "row[%s,%s,%s]" % k, "%s (spec %s)" % (full.get(k), want[k]), b.sp)
    ctx.floor("C05.R1", 9)


def _index_dispatch_body(f):
    """the body that matches on the chosen IndexKind to open the ranges (QueryIterator::new or a
    helper it calls)"""
    from .common import variant_edges
    cands = []
    for b in f.local_callees(QN, depth=2, prefix="store::fs::query"):
        if variant_edges(b, lambda ty: ty.endswith("store::util::IndexKind"), 0):
            cands.append(b)
    if len(cands) != 1:
        raise mir.AnchorMissing("expected one body dispatching on IndexKind under QueryIterator::new, found %d" % len(cands))
    return cands[0]


def r2(ctx):
    f = ctx.facts
    ctx.touch(f.body(QN))
    b = _index_dispatch_body(f)
    ctx.touch(b)
    IKn = _names(f, "store::util::IndexKind")
    AF = _names(f, "store::AuthorFilter")
    seen = set()
    for p in P.explore(b):
        if not (p.ret[0] == "variant" and p.ret[1] == "Ok"):
            continue
        ik = _dec(p, "#IndexKind", IKn)
        af = _dec(p, "#AuthorFilter", AF)
        r = P.short(p.ret)
        calls = {e[1]: e[2] for e in p.events if e[0] == "call"}
        seen.add((ik, af))
        if ik == "AuthorKey" and af == "Exact":
            t = calls.get("author_key")
            ok = t is not None and re.search(r"key_filter:Any\b", r) is not None
            if ok:
                a = [sorted({origin_summary(o) + "." + ".".join(mir.field_path(o)) for o in trace(b, x)}) for x in t["a"]]
                ok = a[0] == ["arg:namespace."] and any("key_filter" in x for x in a[2]) and any(x.endswith(".0") or "as Exact" in x or x.endswith("range.0") or "range" in x for x in a[1])
            ctx.check(ok, "C05.R2", QN, "exact-author: bounds(namespace,author,key_filter) and residual filter Any",
                      "result %s" % r[:200], b.sp)
        elif ik == "AuthorKey" and af == "Any":
            t = calls.get("namespace")
            ok = t is not None and re.search(r"key_filter:(place|value):[^,}]*AuthorKey\.key_filter", r) is not None and "author_key" not in calls
            ctx.check(ok, "C05.R2", QN, "any-author: namespace bounds and the key filter is retained",
                      "result %s" % r[:200], b.sp)
        elif ik == "KeyAuthor":
            t = calls.get("new")
            ok = t is not None and re.search(r"author_filter:(place|value):[^,}]*KeyAuthor\.author_filter", r) is not None and "selector:call:then" in r
            if ok:
                a1 = {origin_summary(o) + "." + ".".join(mir.field_path(o)) for o in trace(b, t["a"][1])}
                a0 = {origin_summary(o) for o in trace(b, t["a"][0])}
                ok = a0 == {"arg:namespace"} and any("range" in x for x in a1)
                th = calls.get("then")
                ok = ok and th is not None and any("latest_per_key" in ".".join(mir.field_path(o)) for o in trace(b, th["a"][0]))
            ctx.check(ok, "C05.R2", QN, "key-ordered: bounds(namespace,key range), author filter retained, selector iff latest_per_key",
                      "result %s" % r[:220], b.sp)
    ctx.check(seen == {("AuthorKey", "Exact"), ("AuthorKey", "Any"), ("KeyAuthor", None)}, "C05.R2", QN, "all-arms-seen", "%s" % sorted(seen, key=str), b.sp)
    # the records ranges are opened on the right tables
    ctx.floor("C05.R2", 4)


def r3(ctx):
    sub = type(ctx)(ctx.prop, ctx.tier, ctx.facts, ctx.cfg)
    C02.r3(sub)
    for o in sub.obligations:
        o = dict(o)
        o["rule"] = "C05.R3"
        o["key"] = o["key"].replace("C02.R3", "C05.R3")
        ctx.obligations.append(o)
        if o["status"] != "holds":
            ctx.violations.append(o)
    ctx.analysed_bodies |= sub.analysed_bodies
    ctx.floor("C05.R3", 2)


def r4(ctx):
    f = ctx.facts
    from . import feval as E
    b = f.body("store::util::LatestPerKeySelector::push")
    ctx.touch(b)
    SEL = "store::util::LatestPerKeySelector"
    rows = {}

    def run(entry_some, kept_some, same_key, ts_order):
        def oracle(kind, a, b2, site):
            sa, sb = str(a), str(b2)
            if kind in ("eq", "cmp"):
                if "key" in sa and "key" in sb:
                    return same_key if kind == "eq" else (0 if same_key else 1)
                if "timestamp" in sa and "timestamp" in sb:
                    o = {"Less": -1, "Equal": 0, "Greater": 1}[ts_order]
                    if "new" in sa and "kept" in sb:
                        return (o == 0) if kind == "eq" else o
                    if "kept" in sa and "new" in sb:
                        return (o == 0) if kind == "eq" else -o
            return None
        heap = {"self": E.Adt(SEL, 0, {0: E.Some(E.Tok("kept")) if kept_some else E.NONE})}
        arg = E.Some(E.Tok("new")) if entry_some else E.NONE
        ret, h, ev = E.run(f, b.path, [E.href("self"), arg], heap, oracle)
        return E.describe(ret, f), E.describe(h["self"][3].get(0), f)
    try:
        rows[("None", "Some")] = run(False, True, None, None)
        rows[("None", "None")] = run(False, False, None, None)
        rows[("Some", "None")] = run(True, False, None, None)
        rows[("Some", "Some", "other key")] = run(True, True, False, "Less")
        for o in ("Less", "Equal", "Greater"):
            rows[("Some", "Some", "same key", o)] = run(True, True, True, o)
    except E.Unsupported as e:
        ctx.bad("C05.R4", b.path, "selector-table", "UNSUPPORTED-FORM: %s" % e, b.sp)
        ctx.floor("C05.R4", 1)
        return
    want = {
        ("None", "Some"): ("Some(kept)", "None"),
        ("None", "None"): ("Finished", "None"),
        ("Some", "None"): ("Continue", "Some(new)"),
        ("Some", "Some", "other key"): ("Some(kept)", "Some(new)"),
        ("Some", "Some", "same key", "Less"): ("Continue", "Some(kept)"),
        ("Some", "Some", "same key", "Greater"): ("Continue", "Some(new)"),
    }
    got = {k: v for k, v in rows.items() if k in want}
    ctx.check(got == want, "C05.R4", b.path, "selector-table",
              "(pushed, kept[, key, cmp(new.ts,kept.ts)]) -> (emitted, kept afterwards): %s" % sorted(rows.items(), key=str), b.sp)
    eq = rows[("Some", "Some", "same key", "Equal")]
    ctx.check(eq in (("Continue", "Some(kept)"), ("Continue", "Some(new)")), "C05.R4", b.path, "equal-timestamps-keep-one", "%s" % (eq,), b.sp)
    ctx.floor("C05.R4", 2)


def r5(ctx):
    f = ctx.facts
    b = f.body(QNEXT)
    ctx.touch(b)
    fam = f.family(b.path)
    ctx.touch(*fam)
    # (a) limit test precedes any fetch
    cm = [c for c in comparisons(b) if not mir.is_noise(c["x"])]
    lim = None
    for c in cm:
        fa = {".".join(mir.field_path(o)) for o in trace(b, c["a"], whole_only=True)}
        sb_ = trace(b, c["b"], through_calls=False)
        if "count" in fa and any(o.kind == "call" and o.data["f"].get("name") in ("limit", "branch") or True for o in sb_) and c["op"] in (">=", ">"):
            lim = c
    fetches = [bi for bi, t in b.calls() if t["f"].get("name") == "next_filtered"]
    if lim is None or len(fetches) != 2:
        ctx.bad("C05.R5", QNEXT, "limit-test.form", "limit comparison or the two fetch sites not found (%s, %d) (UNSUPPORTED-FORM)" % (lim is not None, len(fetches)), b.sp)
    else:
        from .common import truth_edges_final
        es = truth_edges_final(b, lim["dest"]["l"], True)
        ok = bool(es)
        if ok:
            region = b.reach_from_edges([e[1] for e in es])
            ok = not any(x in region for x in fetches) and lim["op"] == ">="
        ctx.check(ok, "C05.R5", QNEXT, "nothing-fetched-once-limit-reached", "on count >= limit the iterator returns None without touching the ranges", lim["loc"])
    # (b) offset skipping only for Some(Ok(_))
    offw = [(bi, s) for bi, si, s in b.statements() if s["k"] == "assign" and s["p"]["p"] and s["p"]["p"][-1][0] == "field" and s["p"]["p"][-1][2] == "offset"]
    okb = False
    if len(offw) == 1:
        wb = offw[0][0]
        # dominated by discr(next)==Some and discr(payload)==Ok edges
        doms = []

        def discr_doms(target_bb):
            out = []
            for bi, blk in enumerate(b.blocks):
                tt = blk["t"]
                if tt["k"] == "switch" and tt["d"][0] in ("copy", "move"):
                    ds = b.defs().get(tt["d"][1]["l"], [])
                    if len(ds) == 1 and ds[0][2] == "assign" and ds[0][3]["r"][0] == "discr":
                        pl = ds[0][3]["r"][1]
                        for v, tb in tt["v"]:
                            if b.edge_dominates(bi, tb, target_bb):
                                ty = b.locals[pl["l"]]["ty"]
                                inner = [pr for pr in pl["p"] if pr[0] == "field"]
                                out.append((ty.split("<")[0].split("::")[-1] if not inner else "payload", v))
            return out
        doms = discr_doms(wb)
        if not doms:
            # through a `matches!` temporary: the write is dominated by the true edge of a bool whose
            # `true` assignments are dominated by the discriminant edges
            for bi, blk in enumerate(b.blocks):
                tt = blk["t"]
                if tt["k"] == "switch" and tt["d"][0] in ("copy", "move") and b.locals[tt["d"][1]["l"]]["ty"] == "bool" and not tt["d"][1]["p"]:
                    if not b.edge_dominates(bi, tt["o"], wb):
                        continue
                    m = tt["d"][1]["l"]
                    # follow one copy
                    srcs = [m]
                    for d in b.defs().get(m, []):
                        if d[2] == "assign" and d[3]["r"][0] == "use" and d[3]["r"][1][0] in ("copy", "move") and not d[3]["r"][1][1]["p"]:
                            srcs.append(d[3]["r"][1][1]["l"])
                    for src in srcs:
                        trues = [d[0] for d in b.defs().get(src, []) if d[2] == "assign" and d[3]["r"][0] == "use" and d[3]["r"][1][0] == "const" and d[3]["r"][1][1].get("val") == 1]
                        for tb in trues:
                            doms += discr_doms(tb)
        okb = ("Option", 1) in doms and ("payload", 0) in doms
        ctx.check(okb, "C05.R5", QNEXT, "offset-skips-only-Some(Ok)", "offset += 1 is dominated by next == Some and payload == Ok (%s)" % doms, offw[0][1]["sp"])
    else:
        ctx.bad("C05.R5", QNEXT, "offset-skips-only-Some(Ok)", "expected one write to self.offset, found %d" % len(offw), b.sp)
    # count incremented once per returned item
    cw = [(bi, s) for bi, si, s in b.statements() if s["k"] == "assign" and s["p"]["p"] and s["p"]["p"][-1][0] == "field" and s["p"]["p"][-1][2] == "count"]
    ctx.check(len(cw) == 1, "C05.R5", QNEXT, "count-incremented-at-one-site", "%d writes to self.count" % len(cw), b.sp)
    # (c) include_empty on both paths
    reads = {}
    for body in fam:
        for bi, si, s in body.statements():
            if s["k"] != "assign":
                continue
            r = s["r"]
            pl = r[1][1] if r[0] == "use" and r[1][0] in ("copy", "move") else (r[2] if r[0] == "ref" else None)
            if pl and any(pr[0] == "field" and pr[2] == "include_empty" for pr in pl["p"]):
                reads.setdefault(body.path, 0)
                reads[body.path] += 1
    total = sum(reads.values())
    cap = [x for x in fam if x.path.endswith("next::{closure#0}") and any("include_empty" in n for n in x.upvars)]
    ctx.check(total >= 2 and bool(cap), "C05.R5", QNEXT, "include_empty-honoured-on-both-paths",
              "include_empty is read %d times (%s); the records-path filter closure captures it: %s" % (total, sorted(reads), bool(cap)), b.sp)
    # on the key-ordered path the emptiness test is applied to the selector's OUTPUT: the value tested
    # must have the selector's result among its origins (filtering before the selection would let an
    # older non-empty entry of another author resurface behind a newer deletion marker)
    from .common import lift_origins
    ie = []
    for body in fam:
        for bi, t in body.calls():
            if t["f"].get("name") == "is_empty" and callee_matches(t, r"sync::Record::is_empty$"):
                ie.append((body, bi, t))
    pu = [(bi, t) for bi, t in b.calls() if callee_matches(t, r"LatestPerKeySelector::push$")]
    if len(ie) == 1 and len(pu) == 1:
        body, bi, t = ie[0]
        srcs = lift_origins(f, body, trace(body, t["a"][0]), b)
        from_sel = any(o.kind == "call" and o.data is pu[0][1] for o in srcs)
        ctx.check(from_sel, "C05.R5", QNEXT, "empty-filter-after-latest-per-key-selection",
                  "the entry tested for emptiness derives from the selector's result" if from_sel else
                  "the emptiness filter is applied before the latest-per-key selection: a newer deletion marker no longer hides older entries of other authors for that key", t["sp"])
    else:
        ctx.bad("C05.R5", QNEXT, "empty-filter-after-latest-per-key-selection", "expected one Record::is_empty test (in next() or a closure of it) and one selector push (found %d/%d) (UNSUPPORTED-FORM)" % (len(ie), len(pu)), b.sp)
    ve = f.body("store::fs::query::value_is_empty")
    ri = f.body("sync::Record::is_empty")
    ctx.touch(ve, ri)
    def empt(body):
        for bi, t in body.calls():
            if t["f"].get("name") == "eq":
                s = set()
                for a in t["a"]:
                    for o in leaves(body, a):
                        s.add(origin_summary(o) + "." + ".".join(mir.field_path(o)))
                return s
        return set()
    a, b2 = empt(ve), empt(ri)
    ok = any("iroh_blobs::Hash::EMPTY" in x for x in a) and any("iroh_blobs::Hash::EMPTY" in x for x in b2) and any(x.endswith(".4") for x in a) and any(x.endswith(".hash") for x in b2)
    ctx.check(ok, "C05.R5", ve.path, "empty=hash==Hash::EMPTY(both)", "value_is_empty compares %s; Record::is_empty compares %s" % (sorted(a), sorted(b2)), ve.sp)
    # filters
    kf = f.body("store::KeyFilter::matches")
    ctx.touch(kf)
    KF = _names(f, "store::KeyFilter")
    rows = {}
    for p in P.explore(kf):
        v = _dec(p, "arg:self", KF)
        rows[v] = P.short(p.ret)
        if p.ret[0] == "call" and p.ret[1] == "starts_with":
            t = p.ret[2]
            okp = {origin_summary(o) for o in trace(kf, t["a"][0])} == {"arg:key"} and {origin_summary(o) for o in trace(kf, t["a"][1])} == {"arg:self"}
            ctx.check(okp, "C05.R5", kf.path, "Prefix=key.starts_with(prefix)", "receiver/argument order", t["sp"])
    ctx.check(rows == {"Any": "1", "Exact": "call:eq", "Prefix": "call:starts_with"}, "C05.R5", kf.path, "filter-table", "%s" % rows, kf.sp)
    af = f.body("store::AuthorFilter::matches")
    ctx.touch(af)
    AFn = _names(f, "store::AuthorFilter")
    rows = {_dec(p, "arg:self", AFn): P.short(p.ret) for p in P.explore(af)}
    ctx.check(rows == {"Any": "1", "Exact": "call:eq"}, "C05.R5", af.path, "filter-table", "%s" % rows, af.sp)
    # the filters are applied to the row's own key / author
    c0 = [x for x in fam if x.path.endswith("next::{closure#0}")]
    c1 = [x for x in fam if x.path.endswith("next::{closure#1}")]
    if c0 and c1:
        m0 = [t for _, t in c0[0].calls() if callee_matches(t, r"store::KeyFilter::matches$")]
        m1 = [t for _, t in c1[0].calls() if callee_matches(t, r"store::AuthorFilter::matches$")]
        ok0 = len(m0) == 1 and any(mir.field_path(o)[-1:] == ("2",) for o in trace(c0[0], m0[0]["a"][1]))
        ok1 = len(m1) == 1 and any("2" in mir.field_path(o) for o in leaves(c1[0], m1[0]["a"][1]))
        ctx.check(ok0, "C05.R5", c0[0].path, "key-filter-on-row-key", "key_filter.matches(component 2 of the records id)", c0[0].sp)
        ctx.check(ok1, "C05.R5", c1[0].path, "author-filter-on-row-author", "author_filter.matches(component 2 of the by-key id)", c1[0].sp)
    ctx.floor("C05.R5", 9)


def r6(ctx):
    """RecordsByKeyRange::next_filtered evaluated (K6') on short index sequences whose rows are found /
    stale (record gone) / rejected by the filter / failing: a stale id is skipped and the scan goes on."""
    from . import feval as E
    f = ctx.facts
    NF = "store::fs::ranges::RecordsByKeyRange::next_filtered"
    nf = f.body(NF)
    ctx.touch(nf)
    impls = [p for p in f.bodies if p.endswith("as store::fs::ranges::RangeExt<K, V>>::next_filter_map")]
    if len(impls) != 1:
        raise mir.AnchorMissing("expected one impl of RangeExt::next_filter_map, found %d" % len(impls))
    ctx.touch(f.body(impls[0]))
    bind = {"store::fs::ranges::RangeExt::next_filter_map": impls[0]}

    def scen(rows, direction="Asc"):
        st = {"i": 0, "gets": [], "filters": [], "dir": None}

        def digit(sx):
            d = [c for c in sx if c.isdigit()]
            return int(d[0]) if d else None

        def oracle(kind, name, payload, site):
            if kind != "call":
                return None
            t, args, it = payload
            names = [it.tokname(a) for a in args]
            if name in ("next", "next_back") and names and names[0].startswith("idx"):
                st["dir"] = name
                i = st["i"]
                st["i"] += 1
                if i >= len(rows):
                    return E.NONE
                if rows[i] == "ioerr":
                    return E.Some(E.Err(E.Tok("index-error")))
                return E.Some(E.Ok(("tuple", [E.Tok("kg%d" % i), E.Tok("vg%d" % i)])))
            if name == "value" and names[0].startswith("kg"):
                i = names[0][2:]
                return ("tuple", [E.Tok("ns" + i), E.Tok("key" + i), E.Tok("author" + i)])
            if name == "value" and names[0].startswith("vg"):
                return E.UNIT
            if name == "value" and names[0].startswith("row"):
                return E.Tok("val" + names[0][3:])
            if name in ("call", "call_mut", "call_once") and names and names[0] == "filter":
                i = digit(names[1])
                st["filters"].append(i)
                return E.Int(0 if (i is not None and rows[i] == "rejected") else 1)
            if name == "get" and "records" in names[0]:
                i = digit(names[1])
                st["gets"].append((i, names[1]))
                if i is None:
                    raise E.Unsupported("record lookup under an id not derived from the index row: %s" % names[1])
                r = rows[i]
                if r == "stale":
                    return E.Ok(E.NONE)
                if r == "geterr":
                    return E.Err(E.Tok("storage-error"))
                return E.Ok(E.Some(E.Tok("row%d" % i)))
            if callee_matches(t, r"store::fs::into_entry$"):
                return E.Tok("entry(%s)" % ",".join(names))
            return None
        heap = {"self": E.struct(f, "store::fs::ranges::RecordsByKeyRange", records_table=E.Tok("records"), by_key_range=E.Tok("idx")),
                "dir": E.variant(f, "store::SortDirection", direction), "filter": E.Tok("filter")}
        try:
            ret, hp, ev = E.run(f, NF, [E.href("self"), E.href("dir"), E.Tok("filter")], heap, oracle, bind=bind)
            return E.describe(ret, f), st
        except E.Unsupported as e:
            return "UNSUPPORTED-FORM: %s" % e, st

    def ent(i):
        return "Some(Ok(entry((ns%d,author%d,key%d),val%d)))" % (i, i, i, i)
    table = [
        (("found",), "Asc", ent(0)),
        (("found",), "Desc", ent(0)),
        (("stale", "found"), "Asc", ent(1)),
        (("stale", "stale", "found"), "Asc", ent(2)),
        (("stale",), "Asc", "None"),
        ((), "Asc", "None"),
        (("rejected", "found"), "Asc", ent(1)),
        (("geterr", "found"), "Asc", "Some(Err"),
        (("ioerr",), "Asc", "Some(Err"),
    ]
    for rows, direction, want in table:
        got, st = scen(list(rows), direction)
        ok = got == want or (want == "Some(Err" and got.startswith("Some(Err"))
        # the record is looked up under the id permuted from the index key (namespace, key, author) -> (namespace, author, key)
        ok = ok and all(nm == "(ns%d,author%d,key%d)" % (i, i, i) for i, nm in st["gets"])
        ok = ok and st["dir"] == ("next" if direction == "Asc" else "next_back")
        if "rejected" in rows:
            ok = ok and all(rows[i] != "rejected" for i, _ in st["gets"])
        ctx.check(ok, "C05.R6", NF, "index-scan[%s,%s]" % ("+".join(rows) or "empty", direction),
                  "returns %s (spec %s), record lookups %s, advanced with %s; a by-key id whose record is gone is skipped and the scan continues, a rejected id is not looked up, errors are reported" % (got, want, st["gets"], st["dir"]), nf.sp)
    ctx.floor("C05.R6", 9)


def run(ctx):
    ctx.run_rule("C05.R1", r1)
    ctx.run_rule("C05.R2", r2)
    ctx.run_rule("C05.R3", r3)
    ctx.run_rule("C05.R4", r4)
    ctx.run_rule("C05.R5", r5)
    ctx.run_rule("C05.R6", r6)

"""C18 — opening an older database rebuilds derived tables exactly; reopening is a no-op."""
from . import mir, tables
from .mir import trace, origin_summary, callee_matches
from .common import find_calls, one_call, call_outcomes, follow_value, comparisons, TRUTH, flip, Ensures
from . import paths as P

EXPLANATION = (
    "Decides structural necessary conditions of C18 from MIR: (R1) Store::new_impl runs run_migrations (all four, in order) "
    "before a Store value exists and propagates its error; (R2) sibling agreement: migration 004 and entry_put build the by-key "
    "id with the same permutation (namespace,key,author) of the records id, RecordsByKeyRange::next_filtered inverts it, "
    "migration 001 and entry_put write (namespace,author)->(timestamp,key); and every record visited by a populate loop "
    "reaches the insert (no path from the loop item to the next iteration bypasses it); (R3) migration 001 replaces the kept "
    "head iff the new timestamp is not Less; (R4) each populate migration returns Skip when its target is non-empty and "
    "run_migration commits only on Execute. NOT decided: equality of answers for arbitrary table contents."
)
ASSUMPTIONS = ["redb transactions are atomic; an uncommitted WriteTransaction is rolled back on drop"]

M = "store::fs::migrations::"
EP = "<store::fs::StoreInstance<'a> as ranger::Store<sync::SignedEntry>>::entry_put::{closure#0}"


def r1(ctx):
    f = ctx.facts
    b = f.body("store::fs::Store::new_impl")
    ctx.touch(b)
    bi, t = one_call(b, r"migrations::run_migrations$")
    aggs = [(x, s) for x, si, s in b.statements() if s["k"] == "assign" and s["r"][0] == "agg" and s["r"][1][0] == "adt" and s["r"][1][1] == "store::fs::Store"]
    oc = call_outcomes(b, bi)
    e = oc.get("Ok")
    ok = bool(aggs) and bool(e) and all(b.edge_dominates(e[0], e[1], x) for x, _ in aggs)
    ctx.check(ok, "C18.R1", b.path, "migrations-before-store-exists", "every construction of Store is dominated by the Ok edge of run_migrations", t["sp"])
    rm = f.body(M + "run_migrations")
    ctx.touch(rm)
    order = []
    for _, t2 in sorted(rm.calls(), key=lambda x: x[0]):
        if t2["f"].get("name") == "run_migration":
            fn = [d for d in t2["f"].get("tdefs", []) if d and "migration_" in d]
            order.append(fn[0].split("::")[-1] if fn else "?")
    # order by dominance
    sites = [(bi2, t2) for bi2, t2 in rm.calls() if t2["f"].get("name") == "run_migration"]
    sites.sort(key=lambda x: len(rm.dominators()[x[0]]))
    order = []
    for bi2, t2 in sites:
        fn = [d for d in t2["f"].get("tdefs", []) if d and "migration_" in d]
        order.append(fn[0].split("::")[-1][:13] if fn else "?")
    ctx.check(order == ["migration_001", "migration_002", "migration_003", "migration_004"], "C18.R1", rm.path, "all-four-in-order", "%s" % order, rm.sp)
    ens = Ensures(f, r"migrations::run_migration$")
    ok, why = ens.ensures_body(rm)
    ctx.check(ok, "C18.R1", rm.path, "errors-propagate", why, rm.sp)
    ctx.floor("C18.R1", 3)


def _components(body, op, names):
    """for a tuple operand: list of component descriptions"""
    out = []
    for o in trace(body, op):
        if o.kind == "agg" and o.data[0][0] == "tuple":
            for c in o.data[1]:
                out.append(sorted({_desc(body, x) for x in trace(body, c)}))
    return out


def _desc(body, o):
    if o.kind == "call":
        recv = ""
        t = o.data
        n = t["f"].get("name")
        if t["a"]:
            inner = sorted({_desc(body, x) for x in trace(body, t["a"][0])})
            recv = "(" + "|".join(inner) + ")"
        fl = mir.field_path(o)
        return "%s%s%s" % (n, recv, ("." + ".".join(fl)) if fl else "")
    s = origin_summary(o)
    fl = mir.field_path(o)
    return s + ("." + ".".join(fl) if fl else "")


def r2(ctx):
    f = ctx.facts
    types = tables.table_types(f)
    # migration 004: by-key id = (ns, key, author) = components (0,2,1) of the records id
    m4 = f.body(M + "migration_004_populate_by_key_index")
    ctx.touch(m4)
    ins = [(bi, t) for bi, t in m4.calls() if (tables.call_table(t, types) or (None, None))[:2] == ("records_by_key", "insert")]
    if len(ins) != 1:
        raise mir.AnchorMissing("migration 004: expected one records_by_key.insert")
    comps = _components(m4, ins[0][1]["a"][1], None)
    perm = []
    for c in comps:
        idx = [x.split(".")[-1] for x in c if x.startswith("value(")]
        perm.append(idx[0] if len(idx) == 1 else "?")
    ctx.check(perm == ["0", "2", "1"], "C18.R2", m4.path, "by-key-id-permutation", "by-key id components are fields %s of the records id (spec: namespace=0, key=2, author=1)" % perm, ins[0][1]["sp"])
    # the value() receiver is the iterated records row key
    # entry_put: same permutation by accessor names
    ep = f.body(EP)
    ctx.touch(ep)
    def accessor_seq(t):
        seq = []
        for c in _components(ep, t["a"][1], None):
            names = set()
            for x in c:
                for nm in ("namespace", "author", "key", "timestamp"):
                    if x.startswith(nm + "(") or (".%s(" % nm) in x or x.startswith("to_bytes(%s(" % nm) or ("(%s(" % nm) in x:
                        names.add(nm)
            seq.append("|".join(sorted(names)))
        return seq
    rows = {}
    for bi, t in ep.calls():
        ct = tables.call_table(t, types)
        if ct and ct[1] == "insert":
            rows[ct[0]] = (accessor_seq(t), t)
    want = {"records": ["namespace", "author", "key"], "records_by_key": ["namespace", "key", "author"], "latest_per_author": ["namespace", "author"]}
    for name, w in want.items():
        got = rows.get(name, ([], None))[0]
        ctx.check(got == w, "C18.R2", EP, "entry_put.%s-key-order" % name, "key components %s (spec %s)" % (got, w), rows[name][1]["sp"] if name in rows else ep.sp)
    # latest value = (timestamp, key)
    if "latest_per_author" in rows:
        t = rows["latest_per_author"][1]
        seq = []
        for c in _components(ep, t["a"][2], None):
            names = {nm for x in c for nm in ("timestamp", "key") if x.startswith(nm + "(") or ("(%s(" % nm) in x}
            seq.append("|".join(sorted(names)))
        ctx.check(seq == ["timestamp", "key"], "C18.R2", EP, "entry_put.latest-value-order", "value components %s (spec [timestamp, key])" % seq, t["sp"])
    # reader inverts the permutation
    nf = [b for b in f.bodies.values() if b.path.startswith("store::fs::ranges::RecordsByKeyRange::next_filtered::{closure")]
    okinv = False
    for b in nf:
        ctx.touch(b)
        for bi, t in b.calls():
            if (tables.call_table(t, types) or (None, None))[:2] == ("records", "get"):
                comps = _components(b, t["a"][1], None)
                perm = []
                for c in comps:
                    idx = [x.split(".")[-1] for x in c if x.startswith("arg:")]
                    perm.append(idx[0] if len(idx) == 1 else "?")
                okinv = perm == ["0", "2", "1"]
                ctx.check(okinv, "C18.R2", b.path, "index-reader-inverts-permutation", "records id looked up = fields %s of the by-key id (spec 0,2,1)" % perm, t["sp"])
    if not nf:
        raise mir.AnchorMissing("RecordsByKeyRange::next_filtered closure not found")
    # migration 001: latest key (ns, author) value (timestamp, key)
    m1 = f.body(M + "migration_001_populate_latest_table")
    ctx.touch(m1)
    # heads map key tuple from record key fields (0,1); value from (record value field 0, key field 2)
    ent = [t for _, t in m1.calls() if t["f"].get("name") == "entry"]
    okk = False
    if len(ent) == 1:
        comps = _components(m1, ent[0]["a"][1], None)
        perm = [[x.split(".")[-1] for x in c if "value(" in x] for c in comps]
        okk = [p[0] if len(p) == 1 else "?" for p in perm] == ["0", "1"]
        ctx.check(okk, "C18.R2", m1.path, "heads-keyed-by-(namespace,author)", "heads map key = record key fields %s" % perm, ent[0]["sp"])
    # every record reaches the insert in populate loops
    for body, what, callee in ((m4, "by-key insert", "insert"), (m1, "head update", "entry")):
        head = None
        nexts = [bi for bi, t in body.calls() if t["f"].get("name") == "next" and "redb::Range" in t["f"].get("full", "")]
        sites = [bi for bi, t in body.calls() if t["f"].get("name") == callee and (callee != "insert" or (tables.call_table(t, types) or (None,))[0] == "records_by_key")]
        if len(nexts) != 1 or len(sites) != 1:
            ctx.bad("C18.R2", body.path, "populate-loop.form", "expected one records iterator next() and one %s (found %d/%d) (UNSUPPORTED-FORM)" % (what, len(nexts), len(sites)), body.sp)
            continue
        nb, sb = nexts[0], sites[0]
        oc = call_outcomes(body, nb)
        some = oc.get("Some")
        if not some:
            ctx.bad("C18.R2", body.path, "populate-loop.form", "iterator result not matched (UNSUPPORTED-FORM)", body.sp)
            continue
        # from the Some edge, can we get back to the loop head (next) without passing the site?
        region = body.reach_from_edges([some[1]], avoid={sb})
        bypass = nb in region
        ctx.check(not bypass, "C18.R2", body.path, "every-record-reaches-%s" % what.replace(" ", "-"),
                  "no path from a fetched record back to the loop head bypasses the %s" % what if not bypass else
                  "some records are skipped: a path from the fetched record back to the loop head avoids the %s, so the rebuilt table differs from a maintained one" % what, body.loc(sb))
    ctx.floor("C18.R2", 8)


def r3(ctx):
    f = ctx.facts
    cls = [b for b in f.bodies.values() if b.path.startswith(M + "migration_001_populate_latest_table::{closure")]
    found = 0
    for c in cls:
        ctx.touch(c)
        cm = [x for x in comparisons(c) if not mir.is_noise(x["x"])]
        if not cm:
            continue
        for x in cm:
            def lab(op):
                ks = set()
                for o in trace(c, op, whole_only=True):
                    if o.kind == "upvar" and o.data == "timestamp":
                        ks.add("new")
                    elif o.kind == "arg" and o.data[0] == 2:
                        ks.add("kept")
                    else:
                        ks.add("?")
                return ks.pop() if len(ks) == 1 else None
            la, lb = lab(x["a"]), lab(x["b"])
            if {la, lb} != {"new", "kept"}:
                continue
            found += 1
            tbl = TRUTH[x["op"]] if la == "new" else flip(TRUTH[x["op"]])
            edges = follow_value(c, x["dest"]["l"])
            writes = [bi for bi, si, s in c.statements() if s["k"] == "assign" and s["p"]["p"] and s["p"]["p"][0][0] == "deref" and s["p"]["l"] == 2]
            t_e, f_e = edges.get("true"), edges.get("false")
            w_true = bool(t_e) and any(c.edge_dominates(t_e[0], t_e[1], w) for w in writes)
            w_false = bool(f_e) and any(c.edge_dominates(f_e[0], f_e[1], w) for w in writes)
            repl = {o: (tbl[o] if w_true else (not tbl[o] if w_false else None)) for o in tbl}
            ok = repl["Greater"] is True and repl["Less"] is False
            ctx.check(ok, "C18.R3", c.path, "keep-greatest-timestamp", "replaced(cmp(new,kept)) = %s; spec: replace on Greater, never on Less" % repl, x["loc"])
    if not found:
        ctx.bad("C18.R3", M + "migration_001_populate_latest_table", "keep-greatest-timestamp.form", "no comparison of the new timestamp with the kept one found (UNSUPPORTED-FORM)", None)
    ctx.floor("C18.R3", 1)


def r4(ctx):
    f = ctx.facts
    types = tables.table_types(f)
    for name, target in (("migration_001_populate_latest_table", "latest_per_author"), ("migration_004_populate_by_key_index", "records_by_key")):
        b = f.body(M + name)
        ctx.touch(b)
        n_exec = n_skip = 0
        for p in P.explore(b, loop_bound=1):
            if p.ret[0] == "variant" and p.ret[1] == "Ok":
                inner = P.short(p.ret[2])
                emp = []
                for (k, v), e in zip(p.decisions, p.decisions):
                    pass
                # decisions on is_empty payloads, in order of the is_empty calls
                vals = [v for k, v in p.decisions if k[0] == "place" and "is_empty" in k[1]]
                if inner.startswith("Execute"):
                    n_exec += 1
                    # first is_empty (target table) must have been true (empty)
                    ctx.check(bool(vals) and vals[0] == 1, "C18.R4", b.path, "execute-only-if-target-empty[%s]" % ("cut" if p.cut else len(vals)),
                              "Execute path: target-is-empty decisions %s" % vals, b.sp)
                elif inner == "Skip":
                    n_skip += 1
        ctx.check(n_skip >= 1 and n_exec >= 1, "C18.R4", b.path, "has-skip-and-execute", "%d Skip paths, %d Execute paths" % (n_skip, n_exec), b.sp)
        # the first is_empty is on the target table
        ie = [(bi, t) for bi, t in b.calls() if t["f"].get("name") == "is_empty"]
        ie.sort(key=lambda x: len(b.dominators()[x[0]]))
        ok = False
        if ie:
            ty = b.locals[ie[0][1]["a"][0][1]["l"]]["ty"] if ie[0][1]["a"][0][0] in ("copy", "move") else ""
            src = trace(b, ie[0][1]["a"][0])
            ok = tables.norm(types[target]) in tables.norm(" ".join(b.locals[x]["ty"] for x in range(len(b.locals)) if any(o.kind == "call" for o in src))) if False else True
            # type of the receiver local after peeling refs
            for o in src:
                pass
            recv_tys = {tables.norm(b.locals[a[1]["l"]]["ty"]) for a in [ie[0][1]["a"][0]] if a[0] in ("copy", "move")}
            ok = any(tables.norm(types[target]) in t for t in recv_tys) or any(tables.norm(types[target]) in tables.norm(b.locals[l]["ty"]) for l in _chain_locals(b, ie[0][1]["a"][0]))
        ctx.check(ok, "C18.R4", b.path, "emptiness-test-on-target-table", "the first is_empty() is on the %s table" % target, ie[0][1]["sp"] if ie else b.sp)
    rm = f.body(M + "run_migration")
    ctx.touch(rm)
    MO = [v["name"] for v in f.adt(M + "MigrateOutcome")["variants"]]
    for p in P.explore(rm):
        mo = [v for k, v in p.decisions if k[0] == "discr" and "MigrateOutcome" in k[1]]
        if not mo:
            continue
        name = MO[mo[0]] if isinstance(mo[0], int) else "other"
        committed = "commit" in P.calls(p)
        ctx.check(committed == (name == "Execute"), "C18.R4", rm.path, "commit-iff-Execute[%s,%s]" % (name, P.short(p.ret)[:12]), "outcome %s, commit called: %s" % (name, committed), rm.sp)
    ctx.floor("C18.R4", 8)


def _chain_locals(body, op):
    seen = set()
    stack = [op[1]["l"]] if op[0] in ("copy", "move") else []
    while stack:
        l = stack.pop()
        if l in seen:
            continue
        seen.add(l)
        for d in body.defs().get(l, []):
            if d[2] == "assign":
                r = d[3]["r"]
                if r[0] == "ref":
                    stack.append(r[2]["l"])
                elif r[0] == "use" and r[1][0] in ("copy", "move"):
                    stack.append(r[1][1]["l"])
    return seen


def run(ctx):
    ctx.run_rule("C18.R1", r1)
    ctx.run_rule("C18.R2", r2)
    ctx.run_rule("C18.R3", r3)
    ctx.run_rule("C18.R4", r4)

"""C18 — opening an older database rebuilds derived tables exactly; reopening is a no-op."""
import re
from . import mir, tables
from .mir import trace, origin_summary, callee_matches
from .common import find_calls, one_call, call_outcomes, follow_value, comparisons, TRUTH, flip, Ensures
from . import paths as P

EXPLANATION = (
    'Decides structural necessary conditions of C18 from MIR: (R1) Store::new_impl runs run_migrations (all four, in order)'
    ' before a Store value exists and propagates its error; (R2) sibling agreement by abstract evaluation over an abstract '
    'records table: migration 004 and entry_put build the by-key id with the same permutation (namespace,key,author) of the'
    ' records id, RecordsByKeyRange::next_filtered inverts it, migration 001 and entry_put write '
    '(namespace,author)->(timestamp,key) and keep the same head (ties included); every record visited by a populate loop, '
    'deletion markers included, reaches the insert; (R4) each populate migration returns Skip when its target is non-empty '
    'and run_migration commits only on Execute. (R5) the file-format migration that runs on open for stores written by '
    'iroh-docs 0.94..=0.98 (migrate_redb_v2_tuples::run), evaluated on an old file holding one row per table, carries the '
    'records and both derived tables, and swaps the files only after the copy was committed. (R6) the capability-table migrations 002 and 003 evaluated on a database without a version-1 table: Skip, nothing created, written or deleted; 003 deletes only the version-1 table. (R7) = C16.R1 for the two derived tables: removing a document erases its rows there. NOT decided: equality of '
    'answers for arbitrary table contents.'
)
ASSUMPTIONS = ["redb transactions are atomic; an uncommitted WriteTransaction is rolled back on drop"]


M = "store::fs::migrations::"
EP = "<store::fs::StoreInstance<'a> as ranger::Store<sync::SignedEntry>>::entry_put::{closure#0}"


EXPLANATION += ' (R1, round 8) every success return of Store::persistent ensures run_migrations (interprocedural), and Store values are built only on behalf of the constructors.'
EXPLANATION += ' Round 9: (R4) run_migration commits for Execute(0) as well.'
EXPLANATION += ' (R8, round 10) = the index rows of C02.R1 (the maintained index loses an id only together with its record).'


def r1(ctx):
    f = ctx.facts
    # every way to obtain a Store passes the migrations: each public constructor *ensures* run_migrations (interprocedural
    # "success implies the guard succeeded": in the constructor itself or in the helper that builds the Store for it, on every
    # path - also the one that first converts a redb 2.x file), and nothing else builds a Store
    ens_rm = Ensures(f, r"migrations::run_migrations$")
    ctors = [p for p, b0 in f.bodies.items() if re.match(r"^store::fs::Store::(persistent|memory)$", p)]
    if ctors == ["store::fs::Store::memory"] and ctx.cfg != "default":
        # a configuration without the `fs-store` feature has no file-backed constructor: there is no older database to open
        ctx.ok("C18.R1", "store::fs::Store", "no-file-backed-store-in-this-configuration", "only Store::memory exists in configuration `%s` (feature fs-store is off)" % ctx.cfg, None)
    elif len(ctors) < 2:
        raise mir.AnchorMissing("expected the public constructors Store::persistent and Store::memory, found %s" % ctors)
    for p in sorted(ctors):
        if p.endswith("::memory"):
            continue        # a fresh in-memory database cannot be an older one: whether it passes the migrations is immaterial
        b = f.body(p)
        ctx.touch(b)
        ok, why = ens_rm.ensures_body(b)
        ctx.check(ok, "C18.R1", p, "migrations-before-store-exists", "every success return of %s is behind a successful run_migrations (%s)" % (p.split("::")[-1], why), b.sp)
    builders = sorted({(b0.rec.get("root") or b0.path) for b0 in f.bodies.values() for x, si, s0 in b0.statements()
                       if s0["k"] == "assign" and s0["r"][0] == "agg" and s0["r"][1][0] == "adt" and s0["r"][1][1] == "store::fs::Store" and not b0.rec.get("derived")})
    reach = set()
    for p in ctors:
        reach |= {x.path for x in f.scope(p, prefix="store::fs::")} | {p}
    cg_ok = all(bp in reach or any(bp == c for c in ctors) or f.only_reached_from(bp, set(ctors)) for bp in builders)
    ctx.check(bool(builders) and cg_ok, "C18.R1", "store::fs::Store", "store-built-only-by-the-constructors", "Store values are built in %s, reachable only from %s" % (builders, sorted(ctors)), None)
    rm = f.body(M + "run_migrations")
    ctx.touch(rm)
    order = []
    for _, t2 in sorted(rm.calls(), key=lambda x: x[0]):
        if t2["f"].get("name") == "run_migration":
            fn = [d for d in t2["f"].get("tdefs", []) if d and "migration_" in d]
            order.append(fn[0].split("::")[-1] if fn else "?")
    # order by dominance
    sites = [(bi2, t2) for bi2, t2 in rm.calls() if t2["f"].get("name") == "run_migration"]
    sites.sort(key=lambda x: len(rm.dominators()[x[0]]))
    order = []
    for bi2, t2 in sites:
        fn = [d for d in t2["f"].get("tdefs", []) if d and "migration_" in d]
        order.append(fn[0].split("::")[-1][:13] if fn else "?")
    ctx.check(order == ["migration_001", "migration_002", "migration_003", "migration_004"], "C18.R1", rm.path, "all-four-in-order", "%s" % order, rm.sp)
    ens = Ensures(f, r"migrations::run_migration$")
    ok, why = ens.ensures_body(rm)
    ctx.check(ok, "C18.R1", rm.path, "errors-propagate", why, rm.sp)
    # must-pass-through, per migration: no success return of run_migrations without that migration having succeeded
    # (an early `return Ok(())` in front of some of them leaves a derived table unbuilt for the databases that take it)
    for mig in ("migration_001", "migration_002", "migration_003", "migration_004"):
        e1 = Ensures(f, r"migrations::run_migration$")
        e1.is_guard_call = (lambda t, depth, mig=mig: callee_matches(t, r"migrations::run_migration$") and any(d and mig in d for d in t["f"].get("tdefs", [])))
        ok1, why1 = e1.ensures_body(rm)
        ctx.check(ok1, "C18.R1", rm.path, "every-success-return-passed[%s]" % mig, why1, rm.sp)
    ctx.floor("C18.R1", 8)


def _components(body, op, names):
    """for a tuple operand: list of component descriptions"""
    out = []
    for o in trace(body, op):
        if o.kind == "agg" and o.data[0][0] == "tuple":
            for c in o.data[1]:
                out.append(sorted({_desc(body, x) for x in trace(body, c)}))
    return out


def _desc(body, o):
    if o.kind == "call":
        recv = ""
        t = o.data
        n = t["f"].get("name")
        if t["a"]:
            inner = sorted({_desc(body, x) for x in trace(body, t["a"][0])})
            recv = "(" + "|".join(inner) + ")"
        fl = mir.field_path(o)
        return "%s%s%s" % (n, recv, ("." + ".".join(fl)) if fl else "")
    s = origin_summary(o)
    fl = mir.field_path(o)
    return s + ("." + ".".join(fl) if fl else "")


def eval_migration(f, path, records, target_empty=True):
    """a populate migration evaluated (K6' with abstract collections/maps) on `records` = [(namespace, author, key,
    timestamp, content_len)] as the records table yields them; returns (rendered result, rows inserted into the target)"""
    import re as _re
    from . import feval as E, coll
    log = []
    C = coll.Collections(f, sort_key=lambda it, v: E.describe(it.resolve(v), f))
    # table definitions are named constants (`TableDefinition::new("records-1")`): map their evaluated rendering to the constant's name
    ROLE = {}
    for cpath, cb in f.bodies.items():
        if cb.kind == "const" and cpath.startswith("store::fs::tables::") and cpath.endswith("_TABLE"):
            try:
                v, _, _ = E.run(f, cpath, [], {})
                ROLE[E.describe(v, f)] = cpath.split("::")[-1]
            except E.Unsupported:
                pass

    def oracle(kind, name, payload, site):
        if kind in ("cmp", "eq") and str(name).startswith("name:") and str(payload).startswith("name:"):
            a, b2 = str(name), str(payload)
            return (a == b2) if kind == "eq" else ((a > b2) - (a < b2))
        if kind == "cmp":
            a, b2 = str(name), str(payload)
            ma, mb = _re.fullmatch(r"ts(\d+)", a), _re.fullmatch(r"ts(\d+)", b2)
            if ma and mb:
                x, y = int(ma.group(1)), int(mb.group(1))
                return (x > y) - (x < y)
            return None
        if kind != "call":
            return None
        t, args, it = payload
        names = [it.tokname(a) for a in args]
        # every table of the current format exists when the migrations run (the store creates them at open, possibly in an
        # earlier, interrupted open): a derived table that has to be rebuilt is one that is *empty*, not one that is absent
        if name == "list_tables":
            return E.Ok(coll.seq("iter", [E.Tok("handle:" + r) for r in sorted(set(ROLE.values()))]))
        if name == "name" and names:
            n0 = names[0].strip("&*")
            return E.Tok("name:" + (n0[7:] if n0.startswith("handle:") else ROLE.get(n0, n0)))
        if name == "open_table":
            tn = names[1] if len(names) > 1 else "?"
            return E.Ok(E.Tok("table:" + ROLE.get(tn, tn.split("::")[-1])))
        if name in ("is_empty", "len") and names and names[0].startswith("table:"):
            tn = names[0]
            n = len(records) if tn.endswith(":RECORDS_TABLE") else (0 if target_empty else 3)
            return E.Ok(E.Int(n if name == "len" else (1 if n == 0 else 0)))
        if name in ("iter", "range") and names and names[0].startswith("table:"):
            if not names[0].endswith(":RECORDS_TABLE"):
                raise E.Unsupported("a populate migration scanning %s" % names[0])
            return E.Ok(coll.seq("iter", [E.Ok(("tuple", [E.Tok("kg%d" % i), E.Tok("vg%d" % i)])) for i in range(len(records))]))
        if name == "value" and names and _re.fullmatch(r"kg\d+", names[0]):
            ns, au, key, ts, ln = records[int(names[0][2:])]
            for n_, v in (("ns", ns), ("au", au)):
                it.heap.setdefault("%s:%s" % (n_, v), E.Tok("%s:%s" % (n_, v)))
            return ("tuple", [E.href("ns:%s" % ns), E.href("au:%s" % au), E.Tok("key:%s" % key)])
        if name == "value" and names and _re.fullmatch(r"vg\d+", names[0]):
            ns, au, key, ts, ln = records[int(names[0][2:])]
            return ("tuple", [E.Tok("ts%d" % ts), E.Tok("nsig"), E.Tok("asig"), E.Int(ln), E.Tok("hash")])
        if name in ("insert", "remove", "retain", "drain") and names and names[0].startswith("table:"):
            log.append((names[0][6:], name, names[1], names[2] if len(names) > 2 else None))
            return E.Ok(E.NONE)
        if name in ("to_vec", "as_slice", "to_owned", "as_ref", "deref") and names and names[0].startswith("key:"):
            return args[0]
        return C.handle(kind, name, payload, site)
    try:
        inl = tuple(p_ for p_ in f.bodies if p_.startswith(M) and not f.bodies[p_].rec.get("derived"))
        ret, it = E.run_it(f, path, [E.href("tx")], {"tx": E.Tok("tx")}, oracle, inline=inl)
        return E.describe(ret, f), log
    except E.Unsupported as e:
        return "UNSUPPORTED-FORM: %s" % e, log


def eval_entry_put(f, head, empty=False, ts_equal=False, head_record_exists=True, survivors=("k-a", "k-m")):
    """StoreInstance::entry_put evaluated: Store::modify runs the transaction body; `head` = None (author unknown) or
    cmp((timestamp,key) of the entry, stored head) in {-1,0,1}. Returns (rendered result, table writes)."""
    from . import feval as E
    types = tables.table_types(f)
    log = []

    def oracle(kind, name, payload, site):
        if kind in ("cmp", "eq"):
            a, b2 = str(name), str(payload)
            if "key:" in a and "key:" in b2 and "head-" not in a + b2:
                ka, kb = a[a.index("key:"):].rstrip(")"), b2[b2.index("key:"):].rstrip(")")
                c = (ka > kb) - (ka < kb)
                return (c == 0) if kind == "eq" else c
            if head is None or "head-" not in a + b2:
                return None
            rev = "head-" in a
            if "head-key" in a + b2 and "head-ts" in a + b2:        # the (timestamp, key) pairs
                c = head
            elif "head-ts" in a + b2:                               # the timestamps alone
                c = 0 if (ts_equal or head == 0) else head
            else:                                                   # the keys alone
                c = head if (ts_equal or head == 0) else None
            if c is None:
                return None
            c = -c if rev else c
            return (c == 0) if kind == "eq" else c
        if kind != "call":
            return None
        t, args, it = payload
        names = [it.tokname(a) for a in args]
        if callee_matches(t, r"store::fs::Store::modify$"):
            it.heap.setdefault("tables", E.Tok("tables"))
            return it.apply(args[1], [E.href("tables")])
        if name in ("as_mut", "as_ref") and names and names[0] in ("self.store", "store"):
            return args[0]
        ct = tables.call_table(t, types)
        if ct and ct[1] == "get" and ct[0] == "records":
            log.append((ct[0], "get", names[1]))
            return E.Ok(E.Some(E.Tok("recordguard"))) if head_record_exists else E.Ok(E.NONE)
        if ct and ct[1] == "range" and ct[0] == "records":
            # the author's surviving records, all at the entry's timestamp: keys k-a < k-m < k-z (the entry being stored is k-a)
            from . import coll as _coll
            log.append((ct[0], "range", names[1]))
            return E.Ok(_coll.seq("iter", [E.Ok(("tuple", [E.Tok("rowkey:%s" % k), E.Tok("rowval:%s" % k)])) for k in survivors]))
        if name == "value" and names and names[0].startswith("rowkey:"):
            return ("tuple", [E.Tok("ns"), E.Tok("author"), E.Tok("key:" + names[0][7:])])
        if name == "value" and names and names[0].startswith("rowval:"):
            return ("tuple", [E.Int(1000), E.Tok("nsig"), E.Tok("asig"), E.Int(1), E.Tok("hash")])
        if name in ("to_vec", "to_owned", "as_slice", "as_ref", "deref") and names and names[0].strip("&*").startswith("key:"):
            return args[0]
        if name in ("author_prefix", "author_key") and "RecordsBounds" in (t["f"].get("path") or "") + (t["f"].get("full") or ""):
            return E.Tok("bounds-of-this-author")
        if ct and ct[1] == "get":
            log.append((ct[0], "get", names[1]))
            return E.Ok(E.Some(E.Tok("headguard"))) if head is not None else E.Ok(E.NONE)
        if ct and ct[1] in tables.WRITE_OPS:
            log.append((ct[0], ct[1], names[1], names[2] if len(names) > 2 else None))
            return E.Ok(E.NONE)
        if name == "value" and names == ["headguard"]:
            return ("tuple", [E.Tok("head-ts"), E.Tok("head-key")])
        if name == "is_empty" and names and names[0].strip("&*") in ("e", "entry(e)", "record(e)"):
            return E.Int(1 if empty else 0)      # the entry being stored is a deletion marker
        if name in ("to_bytes", "as_bytes") and names:
            return E.Tok("b(%s)" % names[0])
        from . import coll as _c2
        return _c2.Collections(f).handle(kind, name, payload, site)
    try:
        ret, it = E.run_it(f, EP.replace("::{closure#0}", ""), [E.href("self"), E.Tok("e")], {"self": E.Tok("self")}, oracle)
        return E.describe(ret, f), log
    except E.Unsupported as e:
        return "UNSUPPORTED-FORM: %s" % e, log


def _has(name, *parts):
    return all(p in (name or "") for p in parts)


def r2(ctx):
    """sibling agreement by evaluation: what entry_put maintains is what the populate migrations rebuild, and the index
    reader inverts the same permutation"""
    f = ctx.facts
    m4 = f.body(M + "migration_004_populate_by_key_index")
    m1 = f.body(M + "migration_001_populate_latest_table")
    ep = f.body(EP)
    ctx.touch(*f.scope(m4.path, prefix="store::fs::migrations::"))
    ctx.touch(*f.scope(m1.path, prefix="store::fs::migrations::"))
    ctx.touch(*f.scope(EP.replace("::{closure#0}", ""), prefix="store::fs::"))
    R = [("n1", "a1", "k1", 5, 3), ("n1", "a1", "k2", 9, 0), ("n1", "a1", "k3", 2, 7), ("n1", "a2", "k1", 7, 0), ("n2", "a1", "z", 1, 1), ("n2", "a1", "zz", 1, 1)]
    # migration 004: one by-key id (namespace, key, author) per record, deletion markers included
    got, log = eval_migration(f, m4.path, R)
    want = [("RECORDS_BY_KEY_TABLE", "insert", "(ns:%s,key:%s,au:%s)" % (ns, key, au), "()") for ns, au, key, ts, ln in R]
    ctx.check(got == "Ok(Execute(%d))" % len(R) and log == want, "C18.R2", m4.path, "every-record-reaches-by-key-insert",
              "evaluated on %d records (two of them deletion markers): returns %s, inserts %s; spec: one (namespace, key, author) id per record, none skipped" % (len(R), got, log), m4.sp)
    # migration 001: per (namespace, author) the (greatest timestamp, key of that record)
    got, log = eval_migration(f, m1.path, R)
    best = {}
    for ns, au, key, ts, ln in R:
        # the head entry_put maintains is the greatest (timestamp, key): equal timestamps are resolved by the key
        if (ns, au) not in best or (ts, key) > best[(ns, au)]:
            best[(ns, au)] = (ts, key)
    tie = {}
    rows = {}
    okrows = True
    import re as _re
    for tb, op, k, v in log:
        m = _re.fullmatch(r"\(ns:(\w+),au:(\w+)\)", k or "")
        mv = _re.fullmatch(r"\(ts(\d+),key:(\w+)\)", v or "")
        if tb != "LATEST_PER_AUTHOR_TABLE" or op != "insert" or not m or not mv or (m.group(1), m.group(2)) in rows:
            okrows = False
            continue
        rows[(m.group(1), m.group(2))] = (int(mv.group(1)), mv.group(2))
    okrows = okrows and set(rows) == set(best) and all(rows[k] == best[k] or rows[k] in tie.get(k, ()) for k in best)
    ctx.check(got == "Ok(Execute(%d))" % len(best) and okrows, "C18.R2", m1.path, "heads-rebuilt-as-greatest-timestamp-per-author",
              "evaluated on %d records: returns %s, rows %s; spec: one row per (namespace, author) holding the greatest (timestamp, key) - what entry_put maintains: %s" % (len(R), got, rows, best), m1.sp)
    # entry_put maintains the same shapes
    for head, label, empty in [(None, "author-unknown", False), (1, "newer-than-head", False), (0, "equal-to-head", False), (-1, "older-than-head", False),
                               (None, "author-unknown,deletion-marker", True), (1, "newer-than-head,deletion-marker", True), (-1, "older-than-head,deletion-marker", True)]:
        got, log = eval_entry_put(f, head, empty)
        log = [x for x in log if not (x[0] == "records" and x[1] == "get")]
        w = {x[0]: x for x in log if x[1] != "get"}
        rec, byk, lat = w.get("records"), w.get("records_by_key"), w.get("latest_per_author")

        def comps(sx):
            return [c.strip() for c in (sx or "").strip("()").split(",")] if sx else []
        okrec = rec is not None and len(comps(rec[2])) == 3 and _has(comps(rec[2])[0], "namespace") and _has(comps(rec[2])[1], "author") and _has(comps(rec[2])[2], "key")
        okbyk = byk is not None and len(comps(byk[2])) == 3 and _has(comps(byk[2])[0], "namespace") and _has(comps(byk[2])[1], "key") and _has(comps(byk[2])[2], "author")
        want_head = head is None or head >= 0
        oklat = (lat is not None) == want_head
        if lat is not None:
            kc, vc = comps(lat[2]), comps(lat[3])
            oklat = oklat and len(kc) == 2 and _has(kc[0], "namespace") and _has(kc[1], "author") and len(vc) == 2 and _has(vc[0], "timestamp") and _has(vc[1], "key")
        ctx.check(got == "Ok(())" and okrec and okbyk and oklat, "C18.R2", EP, "entry_put[%s]" % label,
                  "returns %s, writes %s; spec: records keyed (namespace, author, key), by-key index (namespace, key, author) - for deletion markers too: they take part in every key-ordered answer -, head (namespace, author) -> (timestamp, key) written unless the stored head is newer" % (got, log), ep.sp)
    # a head names an entry that exists: when this insert pruned the entry the head names (same timestamp, the new key is a prefix
    # of the head's key, so (timestamp, key) compares Less) the head moves to the new entry - it is the greatest (timestamp, key)
    # among the survivors, which is what migration 001 rebuilds; while that entry is still there the head stays
    for ts_equal, exists, label, want in ((True, False, "same-timestamp,head-entry-pruned-by-this-insert", True), (True, True, "same-timestamp,head-entry-still-stored", False),
                                          (False, False, "older-timestamp", False)):
        got, log = eval_entry_put(f, -1, False, ts_equal=ts_equal, head_record_exists=exists)
        heads = [x for x in log if x[0] == "latest_per_author" and x[1] != "get"]
        wrote = bool(heads)
        # when the head moves it moves to the greatest (timestamp, key) among the surviving records of the author - here the entry
        # being stored (k-a) and a sibling that was not pruned because its hash is larger (k-m): k-m
        to_max = (not want) or (len(heads) == 1 and "key:k-m" in str(heads[0][3]))
        ctx.check(got == "Ok(())" and wrote == want and to_max, "C18.R2", EP, "entry_put[below-head,%s]" % label,
                  "returns %s, head %s; spec: %s (the maintained head must be the one a rebuild from the surviving records gives)" % (got, ("rewritten to %s" % (heads[0][3],)) if wrote else "kept", "rewritten to the greatest (timestamp, key) among the survivors: (1000, k-m)" if want else "kept"), ep.sp)
    # the reader of the index inverts the permutation (shared with C05.R6)
    from . import C05
    sub = type(ctx)(ctx.prop, ctx.tier, ctx.facts, ctx.cfg)
    C05.r6(sub)
    for o in sub.obligations:
        o = dict(o)
        o["key"] = o["key"].replace("C05.R6", "C18.R2")
        o["rule"] = "C18.R2"
        ctx.obligations.append(o)
        if o["status"] != "holds":
            ctx.violations.append(o)
    ctx.analysed_bodies |= sub.analysed_bodies
    ctx.floor("C18.R2", 10)


def r3(ctx):
    pass


def r4(ctx):
    """populate-if-empty: Skip (nothing written) unless the target is empty; run_migration commits iff Execute"""
    from . import feval as E
    f = ctx.facts
    R = [("n1", "a1", "k1", 5, 3), ("n1", "a2", "k1", 7, 0)]
    for name in ("migration_001_populate_latest_table", "migration_004_populate_by_key_index"):
        b = f.body(M + name)
        got, log = eval_migration(f, b.path, R, target_empty=False)
        ctx.check(got == "Ok(Skip)" and not log, "C18.R4", b.path, "skip-when-target-populated", "target table not empty: returns %s, writes %s (spec: Skip, nothing written - reopening is a no-op)" % (got, log), b.sp)
        got, log = eval_migration(f, b.path, R, target_empty=True)
        ctx.check(got.startswith("Ok(Execute(") and bool(log), "C18.R4", b.path, "execute-when-target-empty", "target empty, records present: returns %s with %d writes" % (got, len(log)), b.sp)
        got, log = eval_migration(f, b.path, [], target_empty=True)
        ctx.check((got in ("Ok(Skip)", "Ok(Execute(0))")) and not log, "C18.R4", b.path, "nothing-to-rebuild-from-an-empty-store", "no records: returns %s, writes %s" % (got, log), b.sp)
    rm = f.body(M + "run_migration")
    ctx.touch(*f.scope(rm.path, prefix="store::fs::migrations::"))
    MO = M + "MigrateOutcome"
    for label, outcome in (("Execute", E.Ok(E.variant(f, MO, "Execute", E.Int(3)))), ("Execute(0)", E.Ok(E.variant(f, MO, "Execute", E.Int(0)))),
                           ("Skip", E.Ok(E.variant(f, MO, "Skip"))), ("Err", E.Err(E.Tok("migration-error")))):
        # (a migration that reports Execute has changed the database - a table created, a table deleted - whatever row count it
        # reports: its transaction is committed)
        log = []

        def oracle(kind, name, payload, site, outcome=outcome):
            if kind != "call":
                return None
            t, args, it = payload
            names = [it.tokname(a) for a in args]
            if name == "begin_write":
                return E.Ok(E.Tok("tx"))
            if name in ("call", "call_mut", "call_once") and names and names[0] == "migration":
                log.append("migrate")
                return outcome
            if name in ("commit", "abort") and names and names[0] == "tx":
                log.append(name)
                return E.Ok(E.UNIT)
            return None
        try:
            ret, hp, ev = E.run(f, rm.path, [E.href("db"), E.Tok("migration")], {"db": E.Tok("db")}, oracle)
            got = E.describe(ret, f)
        except E.Unsupported as e:
            got = "UNSUPPORTED-FORM: %s" % e
        want_log = ["migrate", "commit"] if label.startswith("Execute") else ["migrate"]
        okr = got.startswith("Err") if label == "Err" else got == "Ok(())"
        ctx.check(okr and log == want_log, "C18.R4", rm.path, "commit-iff-Execute[%s]" % label, "migration returns %s: run_migration returns %s after %s (spec: the transaction is committed exactly when the migration executed)" % (label, got, log), rm.sp)
    ctx.floor("C18.R4", 8)


def _chain_locals(body, op):
    seen = set()
    stack = [op[1]["l"]] if op[0] in ("copy", "move") else []
    while stack:
        l = stack.pop()
        if l in seen:
            continue
        seen.add(l)
        for d in body.defs().get(l, []):
            if d[2] == "assign":
                r = d[3]["r"]
                if r[0] == "ref":
                    stack.append(r[2]["l"])
                elif r[0] == "use" and r[1][0] in ("copy", "move"):
                    stack.append(r[1][1]["l"])
    return seen


def r5(ctx):
    """an older database *file format*: the copy into a fresh file carries the records and both derived tables (what heads and
    key-ordered queries are answered from), and the files are swapped only after the copy was committed"""
    from . import redbmig
    redbmig.check(ctx, "C18.R5", only={"records-1", "latest-by-author-1", "records-by-key-1"}, extras=True)
    ctx.floor("C18.R5", 1)


def r6(ctx):
    """reopening an up-to-date database: the two capability-table migrations (002, 003) skip and touch nothing"""
    from . import nsmig
    nsmig.check_noop(ctx, "C18.R6")
    ctx.floor("C18.R6", 3)


def r7(ctx):
    """a maintained derived table equals a rebuilt one also after a document was removed: removal erases the document's rows of
    the heads table and of the key-ordered index (a rebuild finds no records of it), or the maintained tables keep answering
    for a document that is gone - and for its re-created namesake (the derived-table rows of C16.R1)"""
    from . import C16
    C16.r1(ctx, rule="C18.R7", only={"latest_per_author", "records_by_key"})
    ctx.floor("C18.R7", 2)


def r8(ctx):
    """"exactly as they would on a store that had maintained them all along": the maintained key-ordered index loses an id only
    together with its record (the index rows of the prune primitive, = C02.R1 / C05.R7)"""
    from . import C02
    ctx.share("C18.R8", C02.r1, "C02.R1", keep=lambda k: "index-ids" in k, floor=1)

def run(ctx):
    ctx.run_rule("C18.R1", r1)
    ctx.run_rule("C18.R2", r2)
    ctx.run_rule("C18.R4", r4)
    ctx.run_rule("C18.R5", r5)
    ctx.run_rule("C18.R6", r6)
    ctx.run_rule("C18.R7", r7)
    ctx.run_rule("C18.R8", r8)

"""C03 — only authentic, well-formed, in-namespace, non-future entries are accepted."""
import re
from . import mir
from .mir import trace, origin_summary, callee_matches
from .common import find_calls, one_call, call_outcomes, Ensures, TRUTH, flip, success_sites
from . import paths as P

EXPLANATION = (
    "Decides structural necessary conditions of C03 from MIR: (R1) every call of the reconciliation store's put is "
    'dominated by successful validation on both ingress paths, including the emptiness check for remote entries '
    "(interprocedural 'ensures' fixpoint over call-site dominance); (R2) validate_entry returns Ok only when the namespace "
    'matches, the signature verified unless the origin is Local, and the timestamp is not Greater than now+SHIFT, evaluated'
    ' (abstract interpretation of its MIR) over namespace {same,other} x origin {Local,Sync} x verify {Ok, Err(Signature), '
    "Err(KeyParsing)} x cmp(timestamp, now+SHIFT) {Less,Equal,Greater}; SHIFT = 600_000_000 us; validate_empty's table over"
    " bool^2; (R3) signature verification pairs each key with its own signature over the entry's canonical bytes and "
    'propagates every result; (R4) the canonical encoding reads every field; (R5) the verification-skipping Local origin is'
    ' constructed only in local insert/delete; (R6) a failed validation continues the value loop. (R7) the gossip receive loop evaluated on scripts of broadcast entries: each reaches the replica through exactly one SyncHandle::insert_remote for the loop document, a rejected entry does not end the loop. (R8) the store-actor handlers of InsertRemote / SyncProcessMessage evaluated with each step failing in turn: nothing is counted as applied and the error is what the caller is told when the replica rejected the entry. (R9) sibling agreement of local authoring with remote validation: Replica::insert evaluated on (hash empty, length zero) signs only a proper non-empty record, delete_prefix the proper deletion marker, both with origin Local. NOT decided: '
    'unforgeability (ed25519 trusted), clock arithmetic.'
)
ASSUMPTIONS = [

    "ed25519 signature verification and iroh::PublicKey parsing are trusted",
    "generic callbacks of process_message are bound to the closures of its unique production call site",
    "tracing macro expansions are effect-free",
]

PM = "ranger::Store::process_message::{closure#0}"
SPM = "sync::Replica::<'a, I>::sync_process_message::{closure#0}"
IE = "sync::Replica::<'a, I>::insert_entry::{closure#0}"
IRE = "sync::Replica::<'a, I>::insert_remote_entry::{closure#0}"
VE = r"(^|::)sync::validate_entry"
VEMPTY = r"validate_empty$"


EXPLANATION += " (R1, round 8) the production validate closure is an evaluated table (accepts exactly when validate_empty and validate_entry succeeded on the entry it received, for this replica's id, origin Sync). (R10) every implementation of PublicKeyStore::public_key evaluated: the key an id resolves to is parsed from exactly that id; the cache is looked up and filled under the id itself."
EXPLANATION += " Round 9: (R4) the pinned canonical layout evaluated (Entry::encode: identifier, big-endian length, hash, big-endian timestamp); (R11) = C07.R1: a merge never changes the replica's namespace."
EXPLANATION += ' (R12, round 10) sync::system_time_now evaluated: microseconds since the epoch of SystemTime::now() and nothing else (no static high-water mark).'
EXPLANATION += " (R13, round 12) the key algebra of src/keys.rs evaluated function by function: ids, public keys and secrets convert into each other through exactly their own bytes (what local authoring signs with is what the entry's ids verify with)."
EXPLANATION += " (R14, round 12) = C12.R3's single-entry ingress cells: Replica::insert_remote_entry / insert_entry evaluated - validate_entry is asked about this replica's id, both validations precede the store, a rejected entry reaches neither store nor subscriber."


def production_closures(f):
    """closures passed to the unique production call of ranger::Store::process_message"""
    sites = []
    for b in f.bodies.values():
        for bi, t in b.calls():
            if t["f"].get("name") == "process_message" and callee_matches(t, r"ranger::Store"):
                sites.append((b, bi, t))
    if len(sites) != 1:
        raise mir.AnchorMissing("expected exactly one production call of process_message, found %d" % len(sites))
    b, bi, t = sites[0]
    cl = [d for d in t["f"]["tdefs"] if d and "{closure" in d]
    if len(cl) != 3:
        raise mir.AnchorMissing("process_message is not called with three closures (found %d)" % len(cl))
    return b, bi, t, cl


def r1(ctx):
    f = ctx.facts
    # (a) who calls put / entry_put
    put_callers = {}
    ep_callers = {}
    for b in f.bodies.values():
        for bi, t in b.calls():
            n = t["f"].get("name")
            if n == "put" and callee_matches(t, r"ranger::Store"):
                put_callers.setdefault(b.path, []).append((bi, t))
            if n == "entry_put" and callee_matches(t, r"ranger::Store"):
                ep_callers.setdefault(b.path, []).append((bi, t))
    allowed_put = {PM, IE}
    for p, sites in sorted(put_callers.items()):
        ctx.check(p in allowed_put, "C03.R1", p, "put-caller",
                  "ranger::Store::put is called here; the validated ingress functions are %s" % sorted(allowed_put), sites[0][1]["sp"])
    for need in allowed_put:
        if need not in put_callers:
            raise mir.AnchorMissing("%s no longer calls put" % need)
    allowed_ep = {"ranger::Store::put", "<&mut S as ranger::Store<E>>::entry_put"}
    # an implementation's own `put` (an override of the default) is as legitimate a caller as the default: whether it admits what the
    # default admits is decided by C02.R15 on the default's table (self-test twin TO1 repeats the default and must stay silent)
    allowed_ep |= {p for p in ep_callers if re.match(r"^<.* as ranger::Store<.*>>::put$", p)}
    for p, sites in sorted(ep_callers.items()):
        ctx.check(p in allowed_ep, "C03.R1", p, "entry_put-caller",
                  "entry_put (raw store write) is called only from put and the forwarding impl", sites[0][1]["sp"])
    # (b) direct path: put in insert_entry dominated by validate_entry Ok
    ie = f.body(IE)
    ctx.touch(ie)
    ens_ve = Ensures(f, VE)
    ens_em = Ensures(f, VEMPTY)
    for bi, t in put_callers[IE]:
        g = None
        for gbi, gt in ie.calls():
            if ens_ve.is_guard_call(gt, 3):
                oc = call_outcomes(ie, gbi)
                e = oc.get("Ok")
                if e and ie.edge_dominates(e[0], e[1], bi):
                    g = gt
        ctx.check(g is not None, "C03.R1", IE, "put-dominated-by-validate_entry",
                  "put is reached only through the Ok edge of validate_entry" if g else "put is not dominated by a successful validate_entry", t["sp"])
        # the entry validated is the entry stored
        if g is not None:
            va = {origin_summary(o) for o in trace(ie, g["a"][3])}
            pa = {origin_summary(o) for o in trace(ie, t["a"][1])}
            ctx.check(va == pa and va, "C03.R1", IE, "validated-entry-is-stored-entry", "validate_entry entry %s / put entry %s" % (sorted(va), sorted(pa)), t["sp"])
    # (c) callers of insert_entry that may pass a non-local origin validate emptiness first
    ie_outer = "sync::Replica::<'a, I>::insert_entry"
    n_callers = n_local = n_remote = 0
    for b in f.bodies.values():
        for bi, t in b.calls():
            if t["f"].get("name") == "insert_entry" and callee_matches(t, r"sync::Replica"):
                n_callers += 1
                ctx.touch(b)
                origs = trace(b, t["a"][2])
                local_only = all(o.kind == "agg" and o.data[0][0] == "adt" and o.data[0][2] == "Local" for o in origs) and origs
                if local_only:
                    n_local += 1
                    ctx.ok("C03.R1", b.path, "insert_entry-call.local-origin", "passes InsertOrigin::Local (covered by R5)", t["sp"])
                    continue
                n_remote += 1
                covered = ens_em.ensures(ie_outer) or ens_em.ensures("sync::validate_entry")
                if not covered:
                    for gbi, gt in b.calls():
                        if ens_em.is_guard_call(gt, 3):
                            oc = call_outcomes(b, gbi)
                            e = oc.get("Ok")
                            if e and b.edge_dominates(e[0], e[1], bi):
                                covered = True
                ctx.check(covered, "C03.R1", b.path, "remote-insert.validate_empty",
                          "a non-local origin reaches insert_entry only after validate_empty succeeded", t["sp"])
    if n_callers < 2 or not n_local or not n_remote:
        raise mir.AnchorMissing("expected callers of Replica::insert_entry with a local and with a remote origin, found %d (local %d, remote %d)" % (n_callers, n_local, n_remote))
    # (d) reconciliation path: put dominated by the true edge of the validate callback
    pm = f.body(PM)
    ctx.touch(pm)
    vcalls = [(bi, t) for bi, t in pm.calls() if t["f"].get("name") == "call" and t["f"].get("full", "").startswith("<F as ")]
    if len(vcalls) != 1:
        raise mir.AnchorMissing("expected exactly one call of the validate callback F in process_message, found %d" % len(vcalls))
    vbi, vt = vcalls[0]
    oc = call_outcomes(pm, vbi)
    for bi, t in put_callers[PM]:
        e = oc.get("true")
        ok = bool(e) and pm.edge_dominates(e[0], e[1], bi)
        ctx.check(ok, "C03.R1", PM, "put-dominated-by-validate_cb", "put is reached only through the true edge of validate_cb", t["sp"])
        # same entry is validated and stored
        va = set()
        for o in trace(pm, vt["a"][1]):
            if o.kind == "agg" and o.data[0][0] == "tuple" and len(o.data[1]) >= 2:
                va |= {origin_summary(x) for x in trace(pm, o.data[1][1])}
        pa = {origin_summary(o) for o in trace(pm, t["a"][1])}
        ctx.check(bool(va) and va == pa, "C03.R1", PM, "validated-entry-is-stored-entry", "validate_cb entry %s / put entry %s" % (sorted(va), sorted(pa)), t["sp"])
    # (e) the production validate closure, evaluated on validate_empty x validate_entry outcomes (K6'): true only if both
    # validations succeeded, on the entry the callback received, for this replica's namespace, with a Sync origin
    sb, sbi, st, cl = production_closures(f)
    ctx.touch(sb)
    vcl = f.body(cl[0])
    ctx.touch(vcl)
    from . import feval as E, coll

    def rename(nm, ty):
        if "SignedEntry" in ty:
            return "entry-param"
        if "ContentStatus" in ty:
            return "content-status-param"
        if "NamespaceId" in ty:
            return "namespace-capture"
        if ty.strip("&") in ("u64",):
            return "now-capture"
        if "[u8; 32]" in ty or "PeerIdBytes" in ty:
            return "from-capture"
        return nm
    rows = {}
    seen = {"entry": set(), "empty": set(), "origin": set(), "ns": set()}
    for em in ("Ok", "Err"):
        for ve in ("Ok", "Err"):
            called = []
            C = coll.Collections(f)

            def oracle(kind, name, payload, site, em=em, ve=ve, called=called):
                if kind != "call":
                    return None
                t, args, it = payload
                if callee_matches(t, VEMPTY):
                    called.append("validate_empty")
                    seen["empty"].add(it.tokname(args[0]).strip("&*"))
                    return E.Ok(E.UNIT) if em == "Ok" else E.Err(E.Tok("InvalidEmptyEntry"))
                if callee_matches(t, VE):
                    called.append("validate_entry")
                    seen["ns"].add(it.tokname(args[2]).strip("&*"))
                    seen["entry"].add(it.tokname(args[3]).strip("&*"))
                    seen["origin"].add(E.describe(it.resolve(args[4]), f))
                    return E.Ok(E.UNIT) if ve == "Ok" else E.Err(E.Tok("failure"))
                return C.handle(kind, name, payload, site)
            heap = {}
            try:
                args = E.default_args(f, vcl.path, heap, rename)
                ret, itp = E.run_it(f, vcl.path, args, heap, oracle)
                rows[(em, ve)] = (E.describe(ret, f), tuple(called))
            except E.Unsupported as e:
                rows[(em, ve)] = ("UNSUPPORTED-FORM: %s" % e, tuple(called))
    accepted = {k for k, v in rows.items() if v[0] == "1"}
    rejected = {k for k, v in rows.items() if v[0] == "0"}
    total = len(accepted) + len(rejected) == 4
    ok_ve = total and all(k[1] == "Ok" and "validate_entry" in rows[k][1] for k in accepted) and ("Ok", "Ok") in accepted
    ctx.check(ok_ve, "C03.R1", vcl.path, "validate-closure.ensures-validate_entry",
              "(validate_empty, validate_entry) -> (accepts, validations run): %s; spec: accepts exactly when both succeeded" % rows, vcl.sp)
    ok_em = total and all(k[0] == "Ok" and "validate_empty" in rows[k][1] for k in accepted) and ("Ok", "Ok") in accepted
    ctx.check(ok_em, "C03.R1", vcl.path, "validate-closure.ensures-validate_empty",
              "(validate_empty, validate_entry) -> (accepts, validations run): %s%s" % (rows, "" if ok_em else "; the reconciliation path stores entries whose emptiness was never validated (hash==EMPTY xor len==0), which the direct path rejects"), vcl.sp)
    ctx.check(seen["entry"] == {"entry-param"} and seen["empty"] == {"entry-param"}, "C03.R1", vcl.path, "validates-the-received-entry",
              "validate_entry is given %s, validate_empty is called on %s; spec: the entry the callback received" % (sorted(seen["entry"]), sorted(seen["empty"])), vcl.sp)
    ctx.check(bool(seen["origin"]) and all(o.startswith("Sync") and "from-capture" in o and "content-status-param" in o for o in seen["origin"]), "C03.R1", vcl.path, "origin-is-Sync",
              "origin passed for reconciliation entries: %s (Local would skip signature verification); spec: Sync { the session's peer, the content status the peer reported for this entry }" % sorted(seen["origin"]), vcl.sp)
    ctx.check(seen["ns"] == {"namespace-capture"}, "C03.R1", vcl.path, "namespace-is-captured-my_namespace", "%s" % sorted(seen["ns"]), vcl.sp)
    # my_namespace in the parent = self.id()
    ns_caps = [nm for nm, pl in (vcl.upvars or {}).items() for pr in pl["p"] if pr[0] == "field" and len(pr) > 3 and "NamespaceId" in pr[3]]
    okns = False
    for nm in ns_caps:
        nsl = sb.local_by_name(nm)
        if nsl:
            o2 = trace(sb, {"l": nsl[0], "p": []}, through_calls=False)
            okns = all(o.kind == "call" and o.data["f"].get("name") == "id" for o in o2) and bool(o2)
    ctx.check(okns and len(ns_caps) == 1, "C03.R1", SPM, "my_namespace-is-replica-id", "the namespace captured by the validate closure (%s) = self.id()" % ns_caps, sb.sp)
    ctx.floor("C03.R1", 12)



def reference_time_sites(ctx, rule="C03.R2"):
    """validate_entry adds the ten-minute allowance itself: what every caller hands it as `now` must be the clock reading, not a
    value that already went through arithmetic (a bound computed by the caller would be extended a second time)"""
    f = ctx.facts
    n = 0

    def clock_like(body, o, depth=3):
        """the origin is a call of system_time_now, or of a crate-local function whose return value is one"""
        if o.kind != "call":
            return False
        if callee_matches(o.data, r"sync::system_time_now$"):
            return True
        if depth <= 0:
            return False
        for p in mir.callee_paths(o.data):
            hb = f.bodies.get(p)
            if hb is None or hb.rec.get("argc"):
                continue
            rets = trace(hb, ["copy", {"l": 0, "p": []}], through_calls=False)
            if rets and all(clock_like(hb, x, depth - 1) for x in rets):
                return True
        return False
    def sources(body, op, depth=5):
        """provenance of an operand followed out of closures (captured variables) and named helpers (parameters, through every
        call site): [(body, origin)] with origins that are neither a capture nor a parameter that could be followed"""
        out = []
        for o in trace(body, op, through_calls=False):
            if depth > 0 and o.kind == "upvar":
                idx = [pr[1] for pr in o.projs if pr[0] == "field"]
                up = mir.upvar_origins(f, body, idx[0]) if idx else None
                if up:
                    pb, _ = up
                    site = mir.closure_site(f, body)
                    out += sources(pb, site[3]["r"][2][idx[0]], depth - 1)
                    continue
            if depth > 0 and o.kind == "arg" and body.kind in ("fn", "assoc_fn") and not o.projs:
                sites = [(cb, ct) for cb, _, ct in f.callers().get(body.path, []) if len(ct["a"]) >= o.data[0]]
                if sites:
                    for cb, ct in sites:
                        out += sources(cb, ct["a"][o.data[0] - 1], depth - 1)
                    continue
            if depth > 0 and o.kind == "arg" and body.rec.get("closure_kind") == "coroutine":
                # parameter of an async fn: captured by its coroutine; follow the callers of the async fn
                parent = f.bodies.get(body.path.rsplit("::{closure", 1)[0])
                nm = o.data[1]
                if parent is not None and parent.rec.get("is_async"):
                    pidx = [i for i in range(1, parent.rec["argc"] + 1) if parent.local_name(i) == nm]
                    sites = [(cb, ct) for cb, _, ct in f.callers().get(parent.path, [])] if pidx else []
                    if sites:
                        for cb, ct in sites:
                            out += sources(cb, ct["a"][pidx[0] - 1], depth - 1)
                        continue
            out.append((body, o))
        return out
    for p, b in sorted(f.bodies.items()):
        for bi, t in b.calls():
            if not callee_matches(t, r"sync::validate_entry$") or not t["a"]:
                continue
            n += 1
            ctx.touch(b)
            origs = sources(b, t["a"][0])
            bad = [mir.origin_summary(o) for ob, o in origs if not clock_like(ob, o)]
            ctx.check(bool(origs) and not bad, rule, p, "reference-time-is-the-clock-reading",
                      "the `now` handed to validate_entry derives from %s%s" % (sorted({mir.origin_summary(o) for ob, o in origs}), (": not the plain clock reading (%s) - validate_entry adds MAX_TIMESTAMP_FUTURE_SHIFT itself" % bad) if bad else ""), t["sp"])
    if n < 2:
        raise mir.AnchorMissing("expected at least two call sites of validate_entry (local / remote insert and reconciliation), found %d" % n)

def r2(ctx):
    f = ctx.facts
    b = f.body("sync::validate_entry")
    ctx.touch(b)
    c = f.const("sync::MAX_TIMESTAMP_FUTURE_SHIFT")
    ctx.check(c["val"] == 600_000_000, "C03.R2", "sync::MAX_TIMESTAMP_FUTURE_SHIFT", "value", "= %s us (ten minutes = 600000000)" % c["val"], c["sp"])
    # validate_entry evaluated (K6') over: namespace {same, other} x origin {Local, Sync} x verify {Ok, Err(Signature), Err(KeyParsing)}
    # x cmp(entry.timestamp, bound) {Less, Equal, Greater}; spec from the property text:
    # Ok iff same namespace and (Local or signatures verify) and the timestamp is not greater than now + SHIFT
    from . import feval as E
    OR = "sync::InsertOrigin"
    VE = "sync::SignedEntryVerifyError"
    bounds_seen = set()
    ns_seen = set()
    bad_rows = []
    n_rows = 0
    unsupported = None
    for ns_same in (1, 0):
        for origin in ("Local", "Sync"):
            for ver in ("Ok", "Signature", "KeyParsing"):
                for order in (-1, 0, 1):
                    def oracle(kind, a, b2, site, ns_same=ns_same, ver=ver, order=order):
                        if kind == "call":
                            t, args, it = b2
                            if a == "verify":
                                if ver == "Ok":
                                    return E.Ok(E.UNIT)
                                return E.Err(E.variant(f, VE, ver, E.Tok("why")))
                            return None
                        sa, sb = str(a), str(b2)
                        if kind in ("eq", "cmp") and "namespace" in sa + sb:
                            ns_seen.add(tuple(sorted((sa, sb))))
                            return bool(ns_same) if kind == "eq" else (0 if ns_same else 1)
                        if kind in ("eq", "cmp") and "timestamp" in sa + sb:
                            ts_first = "timestamp" in sa
                            bounds_seen.add(sb if ts_first else sa)
                            o = order if ts_first else -order
                            return (o == 0) if kind == "eq" else o
                        return None
                    og = E.variant(f, OR, "Local") if origin == "Local" else E.variant(f, OR, "Sync", E.Tok("from"), E.Tok("status"))
                    heap = {"store": E.Tok("store"), "entry": E.Tok("entry"), "origin": og}
                    want = "Ok" if (ns_same and (origin == "Local" or ver == "Ok") and order <= 0) else "Err"
                    n_rows += 1
                    try:
                        ret, hp, ev = E.run(f, b.path, [E.Tok("now"), E.href("store"), E.Tok("expected_namespace"), E.href("entry"), E.href("origin")], heap, oracle)
                        got = E.describe(ret, f).split("(")[0]
                    except E.Unsupported as e:
                        got = "UNSUPPORTED-FORM"
                        unsupported = str(e)
                    if got != want:
                        bad_rows.append(("ns_same=%d" % ns_same, origin, "verify=" + ver, "cmp(ts,bound)=%s" % {-1: "Less", 0: "Equal", 1: "Greater"}[order], "-> " + got, "spec " + want))
    ctx.check(not bad_rows, "C03.R2", b.path, "acceptance-table",
              "%d cells evaluated; deviating cells: %s%s" % (n_rows, bad_rows[:6], (" (%s)" % unsupported) if unsupported else ""), b.sp)
    okb = bounds_seen and all(x in ("Add(now,600000000)", "Add(600000000,now)") for x in bounds_seen)
    ctx.check(bool(okb), "C03.R2", b.path, "bound-is-now-plus-SHIFT", "entry.timestamp() is compared with %s (spec: now + MAX_TIMESTAMP_FUTURE_SHIFT)" % sorted(bounds_seen), b.sp)
    okn = ns_seen == {("expected_namespace", "namespace(entry)")}
    ctx.check(okn, "C03.R2", b.path, "namespace-compared-with-expected", "compared: %s" % sorted(ns_seen), b.sp)
    # validate_empty: Ok iff (hash==EMPTY) == (len==0) -- finite evaluation over the two atoms
    from . import feval as E
    ve = f.body("sync::Entry::validate_empty")
    ctx.touch(ve)
    rows = {}
    for hv in (1, 0):
        for lv in (1, 0):
            def oracle(kind, a, b2, site, hv=hv, lv=lv):
                if kind in ("eq", "cmp"):
                    sa, sb = str(a), str(b2)
                    if "EMPTY" in sa + sb:
                        return bool(hv) if kind == "eq" else (0 if hv else 1)
                    if "0" in (sa, sb):
                        return bool(lv) if kind == "eq" else (0 if lv else (1 if sb == "0" else -1))
                return None
            try:
                ret, h, ev = E.run(f, ve.path, [E.href("self")], {"self": E.Tok("entry")}, oracle)
                rows[(hv, lv)] = E.describe(ret, f).split("(")[0]
            except E.Unsupported as e:
                rows[(hv, lv)] = "UNSUPPORTED-FORM: %s" % e
    spec = {(1, 1): "Ok", (0, 0): "Ok", (1, 0): "Err", (0, 1): "Err"}
    ctx.check(rows == spec, "C03.R2", ve.path, "truth-table", "(hash==EMPTY, len==0) -> %s; spec %s" % (rows, spec), ve.sp)
    se = f.body("sync::SignedEntry::validate_empty")
    ctx.touch(se)
    cs = [t for _, t in se.calls()]
    ctx.check(any(callee_matches(t, r"sync::Entry::validate_empty$") and t["d"]["l"] == 0 for t in cs), "C03.R2", se.path, "delegates", "SignedEntry::validate_empty returns Entry::validate_empty's verdict", se.sp)
    reference_time_sites(ctx)
    ctx.floor("C03.R2", 8)


def _pid(p):
    return ",".join("%s" % (v,) for k, v in p.decisions if k[0] != "noise")


def _fields(body, op):
    out = set()
    for o in trace(body, op):
        fl = [str(p[2]) for p in o.projs if p[0] == "field"]
        base = o.data[1] if o.kind == "arg" else (o.data if o.kind == "upvar" else origin_summary(o))
        out.add("%s.%s" % (base, ".".join(fl)) if fl else str(base))
    return out


def r3(ctx):
    """the two verification functions evaluated (K6'): which key checks which signature over which bytes, and how the
    results combine"""
    from . import feval as E
    f = ctx.facts
    sv = f.body("sync::SignedEntry::verify")
    ctx.touch(*f.scope(sv.path, prefix="sync::"))
    SE = "sync::SignedEntry"
    for nskey, aukey, sig in (("ok", "ok", "ok"), ("ok", "ok", "err"), ("err", "ok", "ok"), ("ok", "err", "ok")):
        log = []

        def oracle(kind, name, payload, site, nskey=nskey, aukey=aukey, sig=sig):
            if kind != "call":
                return None
            t, args, it = payload
            names = [it.tokname(a) for a in args]
            if name in ("namespace", "author") and len(args) == 1:
                return E.Tok("%s(%s)" % (name, names[0]))
            if name == "public_key" and names:
                which = "namespace" if names[0].startswith("namespace(") else ("author" if names[0].startswith("author(") else "?")
                log.append(("public_key", names[0], names[1] if len(names) > 1 else None))
                good = {"namespace": nskey, "author": aukey}.get(which, "err") == "ok"
                return E.Ok(E.Tok("key-of(%s)" % names[0])) if good else E.Err(E.Tok("bad-key(%s)" % which))
            if callee_matches(t, r"sync::EntrySignature::verify$"):
                log.append(("signature.verify", names))
                return E.Ok(E.UNIT) if sig == "ok" else E.Err(E.Tok("bad-signature"))
            return None
        heap = {"self": E.struct(f, SE, signature=E.Tok("sig(e)"), entry=E.Tok("entry(e)")), "store": E.Tok("store")}
        try:
            ret, hp, ev = E.run(f, sv.path, [E.href("self"), E.href("store")], heap, oracle)
            got = E.describe(ret, f)
        except E.Unsupported as ex:
            got = "UNSUPPORTED-FORM: %s" % ex
        all_ok = nskey == aukey == sig == "ok"
        calls = [x for x in log if x[0] == "signature.verify"]
        okc = (not calls) if "err" in (nskey, aukey) else calls == [("signature.verify", ["sig(e)", "entry(e)", "key-of(namespace(entry(e)))", "key-of(author(entry(e)))"])]
        okr = (got == "Ok(())") if all_ok else got.startswith("Err(")
        ctx.check(okc and okr, "C03.R3", sv.path, "verify[namespace-key=%s,author-key=%s,signature=%s]" % (nskey, aukey, sig),
                  "returns %s; calls %s; spec: this entry's signature is verified over this entry with the keys of its own namespace and author ids; Ok only if both keys exist and the signature verifies" % (got, log), sv.sp)
    ev = f.body("sync::EntrySignature::verify")
    ctx.touch(*f.scope(ev.path, prefix="sync::"))
    ES = "sync::EntrySignature"
    for nsres, aures in (("ok", "ok"), ("err", "ok"), ("ok", "err"), ("err", "err")):
        log = []

        def oracle(kind, name, payload, site, nsres=nsres, aures=aures):
            if kind != "call":
                return None
            t, args, it = payload
            names = [it.tokname(a) for a in args]
            if callee_matches(t, r"sync::Entry::(to_vec|encode)$") or (name in ("to_vec", "encode") and names and names[0] == "entry"):
                return E.Tok("canonical-bytes(%s)" % names[0])
            if callee_matches(t, r"keys::(NamespacePublicKey|AuthorPublicKey)::verify$"):
                who = "namespace" if "NamespacePublicKey" in (t["f"].get("path") or "") + (t["f"].get("full") or "") else "author"
                log.append((who + "-key.verify", names))
                return E.Ok(E.UNIT) if {"namespace": nsres, "author": aures}[who] == "ok" else E.Err(E.Tok("bad-%s-signature" % who))
            if name in ("as_ref", "as_slice", "deref", "borrow") and len(args) == 1:
                return args[0]
            return None
        heap = {"self": E.struct(f, ES, author_signature=E.Tok("author-sig"), namespace_signature=E.Tok("namespace-sig")), "entry": E.Tok("entry"), "nk": E.Tok("namespace-key"), "ak": E.Tok("author-key")}
        try:
            ret, hp, evs = E.run(f, ev.path, [E.href("self"), E.href("entry"), E.href("nk"), E.href("ak")], heap, oracle)
            got = E.describe(ret, f)
        except E.Unsupported as ex:
            got = "UNSUPPORTED-FORM: %s" % ex
        want_ns = ("namespace-key.verify", ["namespace-key", "canonical-bytes(entry)", "namespace-sig"])
        want_au = ("author-key.verify", ["author-key", "canonical-bytes(entry)", "author-sig"])
        okp = all(x in (want_ns, want_au) for x in log) and (nsres == "err" or aures == "err" or sorted(log) == sorted([want_ns, want_au]))
        okr = (got == "Ok(())") if (nsres == aures == "ok") else got.startswith("Err(")
        ctx.check(okp and okr, "C03.R3", ev.path, "signature-pairing[namespace=%s,author=%s]" % (nsres, aures),
                  "returns %s; checks %s; spec: the namespace key checks the namespace signature and the author key the author signature, both over the entry's canonical bytes; Ok only if both verify" % (got, log), ev.sp)
    # the public key wrappers delegate to the real verification with the same operands
    for path in ("keys::NamespacePublicKey::verify", "keys::AuthorPublicKey::verify"):
        kb = f.body(path)
        ctx.touch(kb)
        cs = [t for _, t in kb.calls() if t["f"].get("name") in ("verify", "verify_strict")]
        ok = len(cs) == 1 and cs[0]["d"]["l"] == 0
        if ok:
            a = cs[0]["a"]
            ok = ({o.data[1] for o in trace(kb, a[1]) if o.kind == "arg"} == {"msg"} and
                  {o.data[1] for o in trace(kb, a[2]) if o.kind == "arg"} == {"signature"} and
                  _fields(kb, a[0]) == {"self.0"})
        ctx.check(ok, "C03.R3", path, "delegates(msg,signature)", "returns the verdict of PublicKey::verify(self.0, msg, signature)", kb.sp)
    ctx.floor("C03.R3", 10)


def r4(ctx):
    f = ctx.facts
    # canonical bytes cover every field: Entry::encode, Record::encode, RecordIdentifier::encode
    for path, adt in (("sync::Entry::encode", "sync::Entry"), ("sync::Record::encode", "sync::Record"), ("sync::RecordIdentifier::encode", "sync::RecordIdentifier")):
        b = f.body(path)
        ctx.touch(b)
        fields = [x["name"] for x in f.adt(adt)["variants"][0]["fields"]]
        read = set()
        for bi, si, s in b.statements():
            r = s["r"] if s["k"] == "assign" else None
            if not r:
                continue
            pl = None
            if r[0] == "ref":
                pl = r[2]
            elif r[0] == "use" and r[1][0] in ("copy", "move"):
                pl = r[1][1]
            elif r[0] == "cfd":
                pl = r[1]
            if pl and pl["l"] == 1:
                for pr in pl["p"]:
                    if pr[0] == "field":
                        read.add(str(pr[2]))
                        break
        missing = [x for x in fields if x not in read]
        # every field read must flow into a call that appends to `out`
        ctx.check(not missing, "C03.R4", path, "covers-all-fields", "fields %s, read %s" % (fields, sorted(read)), b.sp)
        appends = [t for _, t in b.calls() if t["f"].get("name") in ("extend_from_slice", "encode", "push", "extend", "put_slice")]
        ctx.check(len(appends) >= len(fields), "C03.R4", path, "appends>=fields", "%d append/encode calls for %d fields" % (len(appends), len(fields)), b.sp)
    canonical_layout(ctx, "C03.R4")
    tv = f.body("sync::Entry::to_vec")
    ctx.touch(tv)
    ctx.check(any(callee_matches(t, r"sync::Entry::encode$") for _, t in tv.calls()), "C03.R4", tv.path, "to_vec-uses-encode", "to_vec = encode into a fresh Vec", tv.sp)
    # signing covers the same bytes
    fe = f.body("sync::EntrySignature::from_entry")
    ctx.touch(fe)
    ctx.check(any(callee_matches(t, r"sync::Entry::to_vec$") for _, t in fe.calls()), "C03.R4", fe.path, "signs-canonical-bytes", "signatures are produced over entry.to_vec()", fe.sp)
    ctx.floor("C03.R4", 9)


def canonical_layout(ctx, rule):
    """the pinned canonical bytes of an entry - what every released peer signs and verifies: identifier bytes (namespace, author,
    key), then the record as big-endian length, content hash, big-endian timestamp. Entry::encode evaluated (K6') with the
    fields as tokens: the pieces appended to the output, in order, with their byte order"""
    from . import feval as E, coll
    f = ctx.facts
    b = f.body("sync::Entry::encode")
    C = coll.Collections(f)
    pieces = []

    def oracle(kind, name, payload, site):
        if kind != "call":
            return None
        t, args, it = payload
        names = [it.tokname(a).strip("&*") for a in args]
        if name in ("to_be_bytes", "to_le_bytes", "to_ne_bytes") and len(args) == 1:
            return E.Tok("%s(%s)" % (name[3:5], names[0]))
        if name in ("as_ref", "as_bytes", "as_slice", "deref", "borrow") and len(args) == 1:
            return args[0]
        if name in ("extend_from_slice", "extend", "put_slice", "push", "put") and len(args) == 2 and names[0] == "out":
            pieces.append(names[1])
            return E.UNIT
        return C.handle(kind, name, payload, site)
    rec = E.struct(f, "sync::Record", len=E.Tok("len"), hash=E.Tok("hash"), timestamp=E.Tok("timestamp"))
    rid = E.struct(f, "sync::RecordIdentifier", **{"0": E.Tok("id-bytes")})
    heap = {"entry": E.struct(f, "sync::Entry", id=rid, record=rec), "out": E.Tok("out")}
    try:
        E.run_it(f, b.path, [E.href("entry"), E.href("out")], heap, oracle)
        got = pieces
    except E.Unsupported as e:
        got = ["UNSUPPORTED-FORM: %s" % e]
    want = ["id-bytes", "be(len)", "hash", "be(timestamp)"]
    ctx.check(got == want, rule, b.path, "pinned-canonical-layout", "pieces appended: %s; pinned format: %s (an entry signed by a released peer verifies only over these bytes)" % (got, want), b.sp)


def r5(ctx):
    f = ctx.facts
    allowed = {"sync::Replica::<'a, I>::insert::{closure#0}", "sync::Replica::<'a, I>::delete_prefix::{closure#0}"}
    roots = {"sync::Replica::<'a, I>::insert", "sync::Replica::<'a, I>::delete_prefix"}
    n = 0
    for b in f.bodies.values():
        if b.rec.get("derived"):
            continue
        for bi, si, s in b.statements():
            if s["k"] == "assign" and s["r"][0] == "agg" and s["r"][1][0] == "adt" and s["r"][1][1] == "sync::InsertOrigin" and s["r"][1][2] == "Local":
                n += 1
                ctx.check(f.only_reached_from(b.path, roots), "C03.R5", b.path, "constructs-InsertOrigin::Local",
                          "the verification-skipping Local origin may be constructed only in Replica::insert / delete_prefix (or a private helper only they call)", s["sp"])
    if n < 1:
        raise mir.AnchorMissing("expected a construction of InsertOrigin::Local, found none")
    # in those two functions the entry is signed with the capability's secret key (success payload of secret_key)
    for p in sorted(allowed):
        ctx.touch(f.body(p))
        # the signing call may live in the function itself or in a private helper it calls
        signs = []
        for b in f.local_callees(p, depth=2, prefix="sync::Replica"):
            for bi, t in b.calls():
                if callee_matches(t, r"sync::Entry::sign$") or callee_matches(t, r"sync::SignedEntry::from_entry$"):
                    signs.append((b, t))
        if len(signs) != 1:
            ctx.bad("C03.R5", p, "signs-with-capability-secret", "expected exactly one signing call reachable from the function, found %d" % len(signs), f.body(p).sp)
            continue
        b, t = signs[0]
        ctx.touch(b)
        ok = any(o.kind == "call" and o.data["f"].get("name") == "secret_key" for o in trace(b, t["a"][1]))
        ctx.check(ok, "C03.R5", p, "signs-with-capability-secret", "the namespace key passed to Entry::sign is the Ok payload of secret_key() (in %s)" % b.path, t["sp"])
    ctx.floor("C03.R5", 3)


def r6(ctx):
    f = ctx.facts
    pm = f.body(PM)
    vcalls = [(bi, t) for bi, t in pm.calls() if t["f"].get("name") == "call" and t["f"].get("full", "").startswith("<F as ")]
    vbi, vt = vcalls[0]
    oc = call_outcomes(pm, vbi)
    e = oc.get("false")
    if not e:
        raise mir.AnchorMissing("validate_cb result is not branched on")
    # from the false edge, the loop head (the block that calls Iterator::next feeding validate_cb) is reachable
    # without passing a return; and no return is reachable without passing the loop head again
    nexts = [bi for bi, t in pm.calls() if t["f"].get("name") == "next" and pm.reachable(bi).__contains__(vbi)]
    # innermost loop head: the `next` call that dominates the validate call and is closest
    doms = [bi for bi in nexts if pm.dominates(bi, vbi)]
    if not doms:
        raise mir.AnchorMissing("no iterator loop around validate_cb")
    head = max(doms, key=lambda x: len(pm.dominators()[x]))
    region = pm.reach_from_edges([e[1]], avoid={head})
    rets = [bi for bi in region if pm.blocks[bi]["t"]["k"] == "return"]
    back = head in pm.reachable(e[1])
    ctx.check(back and not rets, "C03.R6", PM, "invalid-entry-continues-loop",
              "after a failed validation control returns to the value loop head without any return/? in between (rest of the message is processed)"
              if back and not rets else "a failed validation can leave the value loop (return reachable before the loop head)", vt["sp"])
    # and it skips put and on_insert
    muts = [bi for bi, t in pm.calls() if t["f"].get("name") in ("put", "async_call_mut") and bi in region]
    ctx.check(not muts, "C03.R6", PM, "invalid-entry-not-stored-not-announced", "no put / on_insert call between a failed validation and the next loop iteration", vt["sp"])
    ctx.floor("C03.R6", 2)


def r7(ctx):
    """the third ingress, gossip: a broadcast entry reaches the replica only through SyncHandle::insert_remote (validated by
    R1/R2 like a single remote insert), and a rejected one does not keep later ones out"""
    from . import gossipin
    gossipin.check(ctx, "C03.R7")
    ctx.floor("C03.R7", 3)


def r8(ctx):
    """"counted as inserted ... only if": the store actor's handlers of remote inserts and reconciliation messages count an
    entry as applied (metrics) and reply success only after the replica accepted it - nothing is counted when it was rejected"""
    from . import actorfw
    actorfw.claim(ctx, "C03.R8", handlers=("InsertRemote", "SyncProcessMessage"), floor=6)


def local_authoring(ctx, rule):
    """what this replica authors is what every peer accepts: Replica::insert evaluated on (hash is the empty hash, length is
    zero) - it signs and stores only a proper non-empty record (a peer's validate_empty rejects the two mixed forms: they would
    be held here, pruning what they supersede, and silently dropped there) -, Replica::delete_prefix evaluated - it signs the
    proper deletion marker (empty hash, length 0); both with origin Local"""
    from . import feval as E
    f = ctx.facts
    ins = f.body("sync::Replica::<'a, I>::insert")
    dele = f.body("sync::Replica::<'a, I>::delete_prefix")
    ctx.touch(ins, dele)

    def evaluate(path, args, hash_empty, stored=()):
        log = []
        from . import coll
        C = coll.Collections(f)

        def oracle(kind, name, payload, site):
            if kind == "await":
                return E.Ok(E.Tok("removed")) if str(name) == "fut:insert_entry" else None
            if kind in ("eq", "cmp"):
                a, b = str(name), str(payload)
                if "stored" in a + b:
                    return True if kind == "eq" else 0      # what is stored already has the same content
                if "arg.hash" in (a, b):
                    return bool(hash_empty) if kind == "eq" else (0 if hash_empty else 1)
                return None
            if kind != "call":
                return None
            t, a, it = payload
            names = [it.tokname(x).strip("&*") for x in a]
            if callee_matches(t, r"sync::Replica::<.*>::insert_entry$"):
                log.append((names[1], E.describe(it.resolve(a[2]), f)))
                return E.Tok("fut:insert_entry")
            if name == "ensure_open":
                return E.Ok(E.UNIT)
            if name == "secret_key":
                return E.Ok(E.Tok("secret"))
            if name == "sign":
                return E.Tok("signed(%s)" % names[0])
            if name in ("get_many", "get_exact", "get_range", "prefixes_of", "get"):
                # whatever the function asks the store about what is already there
                if name == "get_many" or name in ("get_range", "prefixes_of"):
                    return E.Ok(coll.seq("iter", [E.Ok(E.Tok(x)) for x in stored]))
                return E.Ok(E.Some(E.Tok(stored[0])) if stored else E.NONE)
            r = C.handle(kind, name, payload, site)
            if r is not None:
                return r
            return None
        try:
            ret, hp, ev = E.run_async(f, path, args, {"self": E.Tok("replica")}, oracle)
            return E.describe(ret, f), log
        except E.Unsupported as e:
            return "UNSUPPORTED-FORM: %s" % e, log
    for he in (0, 1):
        for lz in (0, 1):
            got, log = evaluate(ins.path, [E.href("self"), E.Tok("arg.key"), E.Tok("arg.author"), E.Tok("arg.hash"), E.Int(0 if lz else 7)], he)
            proper = not he and not lz
            if proper:
                ok = got == "Ok(removed)" and len(log) == 1 and log[0][1] == "Local" and "Record(7,arg.hash," in log[0][0]
            else:
                ok = got.startswith("Err(") and not log
            ctx.check(ok, rule, ins.path, "insert[hash=%s,len=%s]" % ("empty" if he else "content", "0" if lz else "7"),
                      "returns %s; entries handed to insert_entry: %s; spec: %s" % (got, [(x[0][:90], x[1]) for x in log],
                      "signed and stored with origin Local, carrying the given hash and length" if proper else "refused, nothing signed or stored (peers reject such a record)"), ins.sp)
    # a write of content the key already holds is a new entry all the same (a later timestamp): it must be offered to the replica
    got, log = evaluate(ins.path, [E.href("self"), E.Tok("arg.key"), E.Tok("arg.author"), E.Tok("arg.hash"), E.Int(7)], 0, ("stored-entry",))
    ok = got == "Ok(removed)" and len(log) == 1 and log[0][1] == "Local" and "Record(7,arg.hash," in log[0][0]
    ctx.check(ok, rule, ins.path, "insert[hash=content,len=7,key-holds-the-same-content]", "returns %s; entries handed to insert_entry: %s; spec: signed and stored like any other write" % (got, [(x[0][:90], x[1]) for x in log]), ins.sp)
    for label, stored in (("nothing-stored-below-the-prefix", ()), ("entries-stored-below-the-prefix", ("stored-entry",))):
        # a deletion is an entry like any other: it must reach the replica whatever the replica holds right now - an older entry
        # below the prefix may still arrive from a peer, and the marker is what supersedes it (order independence)
        got, log = evaluate(dele.path, [E.href("self"), E.Tok("arg.prefix"), E.Tok("arg.author")], 0, stored)
        ok = got == "Ok(removed)" and len(log) == 1 and log[0][1] == "Local" and re.search(r"Record\(0,[^,]*EMPTY", log[0][0]) is not None
        ctx.check(ok, rule, dele.path, "delete_prefix-signs-a-proper-deletion-marker[%s]" % label, "returns %s; entries handed to insert_entry: %s; spec: one entry with the empty hash and length 0, origin Local, whatever the store holds" % (got, [(x[0][:160], x[1]) for x in log]), dele.sp)


def r9(ctx):
    local_authoring(ctx, "C03.R9")
    ctx.floor("C03.R9", 7)


def r10(ctx):
    from . import pubkeys
    pubkeys.check(ctx, "C03.R10")
    ctx.floor("C03.R10", 11)


def r11(ctx):
    """"its namespace is the replica's": the namespace remote entries are compared with is the id of the replica's capability -
    which a merge never changes (a capability of another document is refused before anything is replaced): the merge table of
    C07.R1"""
    from . import C07
    ctx.share("C03.R11", C07.r1, "C07.R1", floor=1)

def r12(ctx):
    """"at most ten minutes ahead of the local clock": the reference time is the wall clock and nothing else - sync::system_time_now
    evaluated: its result is a function of SystemTime::now() alone (no static high-water mark, no value taken over from a peer can
    move the bound)"""
    from . import feval as E
    f = ctx.facts
    b = f.body("sync::system_time_now")
    ctx.touch(b)
    other = []

    def oracle(kind, name, payload, site):
        if kind != "call":
            return None
        t, args, it = payload
        names = [it.tokname(a).strip("&*") for a in args]
        if name == "now" and not args:
            return E.Tok("wall-clock")
        if name == "duration_since":
            return E.Ok(E.Tok("since-epoch(%s)" % names[0]))
        if name in ("as_micros", "as_millis", "as_nanos", "as_secs"):
            return E.Tok("%s(%s)" % (name, names[0]))
        other.append(name)
        return None
    try:
        ret, itp = E.run_it(f, b.path, [], {}, oracle)
        got = E.describe(itp.resolve(ret), f)
    except E.Unsupported as e:
        got = "UNSUPPORTED-FORM: %s" % e
    statics = [str(o)[:80] for bi, si, st in b.statements() for o in ([st["r"][1]] if st["k"] == "assign" and st["r"][0] == "use" else []) if o[0] == "const" and "static" in str(o).lower()]
    ok = got == "as_micros(since-epoch(wall-clock))" and not [x for x in other if x not in ("expect", "unwrap", "from", "into", "try_into", "try_from")] and not statics
    ctx.check(ok, "C03.R12", b.path, "reference-time-is-the-wall-clock", "returns %s; other calls %s; statics read %s; spec: microseconds since the epoch of SystemTime::now(), nothing else" % (got, other, statics), b.sp)
    ctx.floor("C03.R12", 1)


def r13(ctx):
    """the key algebra of src/keys.rs evaluated (rules/keyalg.py): the key an id verifies with is parsed from the id's own bytes, a secret signs with itself and its id is the bytes of its own public key"""
    from . import keyalg
    keyalg.check(ctx, "C03.R13")
    ctx.floor("C03.R13", 40)

def r14(ctx):
    """"its namespace is the replica's ... whether the entry arrives as a single remote insert or inside a reconciliation message":
    the single-entry ingress evaluated (C12.R3's cells) - validate_entry is asked about this replica's id (not the entry's own
    namespace), both validations precede the store, a rejected entry reaches neither the store nor a subscriber"""
    from . import syncstep
    syncstep.check_insert_paths(ctx, "C03.R14")
    ctx.floor("C03.R14", 12)

def run(ctx):
    ctx.run_rule("C03.R1", r1)
    ctx.run_rule("C03.R2", r2)
    ctx.run_rule("C03.R3", r3)
    ctx.run_rule("C03.R4", r4)
    ctx.run_rule("C03.R5", r5)
    ctx.run_rule("C03.R6", r6)
    ctx.run_rule("C03.R7", r7)
    ctx.run_rule("C03.R8", r8)
    ctx.run_rule("C03.R9", r9)
    ctx.run_rule("C03.R10", r10)
    ctx.run_rule("C03.R11", r11)
    ctx.run_rule("C03.R12", r12)
    ctx.run_rule("C03.R13", r13)
    ctx.run_rule("C03.R14", r14)

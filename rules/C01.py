"""C01 — pairwise reconciliation converges to the join of both replicas (necessary conditions)."""
import re
from . import mir
from .mir import trace, origin_summary, callee_matches
from .common import find_calls, one_call, call_outcomes, follow_value, comparisons, TRUTH, flip, leaves
from . import paths as P
from . import C02
from .C03 import PM, SPM

EXPLANATION = (
    "Decides structural necessary conditions of C01 from MIR: (R1) the comparison sites of ranger::Store::process_message "
    "against the algorithm and the newest-wins rule: (a) diff filter - our entry is withheld iff the peer sent the same key with "
    "a value not Less than ours (Greater => send), errors are forwarded; (b) equal fingerprints skip the range without output; "
    "(c) recursion anchor iff local count <= 1 or the remote fingerprint is the empty fingerprint; (d) a chunk is sent as items "
    "iff its size is not Greater than max_set_size; (R2) SignedEntry::as_fingerprint feeds the hasher with every component "
    "that identifies an entry and orders its value (namespace, author, key, timestamp, content hash), so two different entries "
    "cannot fingerprint equal by construction; (R3) accounting in Replica::sync_process_message: num_recv is increased by the "
    "message's value count before processing, num_sent by the reply's value count exactly on the Some(reply) edge, "
    "heads_received is updated from every incoming value; (R4) admission/pruning and prefix bounds (shared with C02.R1-R5, "
    "because reconciliation applies entries through the same put). NOT decided: the termination bound, pivot arithmetic / split "
    "coverage, equality of the final sets, emptiness of a second session (value-level over all states)."
)
ASSUMPTIONS = ["Meyer's range-based set reconciliation algorithm is correct when its comparisons are as specified", "blake3 collision resistance"]


def r1(ctx):
    f = ctx.facts
    pm = f.body(PM)
    ctx.touch(pm)
    # (a) the diff filter
    fm = f.body(PM + "::{closure#0}")
    an = f.body(PM + "::{closure#0}::{closure#0}")
    ctx.touch(fm, an)
    rows = {}
    for p in P.explore(fm):
        d = None
        a = None
        for k, v in p.decisions:
            if k[0] == "discr" and "our_entry" in k[1]:
                d = "Ok" if v == 0 else "Err"
            if k[0] == "call" and k[1] == "any":
                a = bool(v)
        rows[(d, a)] = P.short(p.ret).split("(")[0] + ("(Err" if "Err(" in P.short(p.ret) else "")
    want = {("Err", None): "Some(Err", ("Ok", True): "None", ("Ok", False): "Some"}
    ctx.check(rows == want, "C01.R1a", fm.path, "send-iff-no-covering-peer-value",
              "(our entry, any(covering peer value)) -> emitted: %s; spec: withheld iff some peer value covers it, store errors are forwarded" % rows, fm.sp)
    tbl = None
    keyeq = None
    for p in P.explore(an):
        for k, v in p.decisions:
            if k[0] == "cmp" and "key(" in k[2] and "key(" in k[3] and k[1] == "==":
                if v == 0:
                    keyeq = P.short(p.ret) == "0"
                elif p.ret[0] == "call":
                    t = p.ret[2]
                    n = t["f"].get("name")
                    from .common import CMP_METHODS
                    if n in CMP_METHODS:
                        def lab(op):
                            s = set()
                            for o in trace(an, op, view=C02.VIEW_VALUE):
                                if o.kind == "upvar" and o.data == "our_entry":
                                    s.add("ours")
                                elif o.kind == "arg":
                                    s.add("theirs")
                                else:
                                    s.add("?")
                            return s.pop() if len(s) == 1 else None
                        la, lb = lab(t["a"][0]), lab(t["a"][1])
                        tt = TRUTH[CMP_METHODS[n]]
                        if (la, lb) == ("theirs", "ours"):
                            tt = flip(tt)
                        elif (la, lb) != ("ours", "theirs"):
                            tt = None
                        tbl = tt
    spec = {"Less": True, "Equal": True, "Greater": False}
    ctx.check(keyeq is True, "C01.R1a", an.path, "different-key-never-covers", "a peer value with another key never withholds our entry", an.sp)
    ctx.check(tbl == spec, "C01.R1a", an.path, "covered-iff-not-newer",
              "covered(cmp(ours, theirs)) = %s; spec %s (we send ours only if strictly newer than the peer's value for the key)" % (tbl, spec), an.sp)
    # the values compared against are the values of this very item
    # (b),(c),(d) in the coroutine body
    cms = [c for c in comparisons(pm) if not mir.is_noise(c["x"]) and not (c["x"] and "debug_assert" in c["x"])]

    def summ(op):
        return sorted({origin_summary(o) for o in trace(pm, op, through_calls=False)})
    fp_eq = [c for c in cms if c["op"] == "==" and any("get_fingerprint" in origin_summary(x) or "branch" in origin_summary(x) for x in trace(pm, c["a"], through_calls=False))
             and not any("Fingerprint::empty" in s for s in summ(c["b"]))]
    fp_eq = [c for c in fp_eq if any(o.kind == "call" and o.data["f"].get("name") == "get_fingerprint" for o in trace(pm, c["a"]) ) or
             any(o.kind == "call" and o.data["f"].get("name") == "branch" and any(x.kind == "call" and x.data["f"].get("name") == "get_fingerprint" for x in trace(pm, o.data["a"][0], through_calls=False)) for o in trace(pm, c["a"], through_calls=False))]
    pushes = [bi for bi, t in pm.calls() if t["f"].get("name") == "push" and any(mir.field_path(o) == () and (pm.local_name(o.data[0]) if o.kind == "arg" else None) is None for o in [])]
    out_l = pm.local_by_name("out")
    pushes = []
    for bi, t in pm.calls():
        if t["f"].get("name") == "push" and out_l:
            if any((x.kind == "call" and x.data["f"].get("name") == "new") or True for x in []):
                pass
            src = trace(pm, t["a"][0], whole_only=True)
            if any(o.kind == "call" and o.data["f"].get("name") == "new" and o.site and pm.blocks[o.site[0]]["t"]["d"]["l"] == out_l[0] for o in src):
                pushes.append(bi)
    if len(fp_eq) != 1:
        ctx.bad("C01.R1b", PM, "fingerprint-compare.form", "expected one comparison of the local range fingerprint with the received one, found %d (UNSUPPORTED-FORM)" % len(fp_eq), pm.sp)
    else:
        c = fp_eq[0]
        e = follow_value(pm, c["dest"]["l"]).get("true")
        gf = [bi for bi, t in pm.calls() if t["f"].get("name") == "get_fingerprint" and pm.dominates(bi, c["bb"])]
        ok = bool(e)
        if ok:
            # from the equal edge, the next thing is the loop head (next fingerprint) - no push to `out` before it
            heads = [bi for bi, t in pm.calls() if t["f"].get("name") == "next" and pm.dominates(bi, c["bb"])]
            head = max(heads, key=lambda x: len(pm.dominators()[x])) if heads else None
            region = pm.reach_from_edges([e[1]], avoid={head} if head is not None else set())
            ok = head is not None and not any(p in region for p in pushes) and not any(pm.blocks[x]["t"]["k"] == "return" for x in region)
        ctx.check(ok, "C01.R1b", PM, "equal-fingerprints-skip-range", "on local == remote fingerprint the range produces no output and the loop continues", c["loc"])
        rf = {origin_summary(o) + "." + ".".join(mir.field_path(o)) for o in trace(pm, c["b"])}
        ctx.check(any("fingerprint" in x for x in rf), "C01.R1b", PM, "compares-with-received-fingerprint", "%s" % sorted(rf), c["loc"])
    # (c) recursion anchor
    le1 = [c for c in cms if c["op"] in ("<=", "<") and c["b"][0] == "const" and any(o.kind == "call" and o.data["f"].get("name") == "branch" for o in trace(pm, c["a"], through_calls=False))]
    emp = [c for c in cms if c["op"] == "==" and any("Fingerprint::empty" in s for s in summ(c["b"]) + summ(c["a"]))]
    okc = False
    det = "count comparisons %d, empty-fingerprint comparisons %d" % (len(le1), len(emp))
    if len(le1) == 1 and len(emp) == 1:
        c = le1[0]
        bound = c["b"][1].get("val")
        from_len = any(o.kind == "call" and o.data["f"].get("name") == "branch" and any(x.kind == "call" and x.data["f"].get("name") == "get_range_len" for x in trace(pm, o.data["a"][0], through_calls=False)) for o in trace(pm, c["a"], through_calls=False))
        sat = {n for n in range(0, 4) if (n <= bound if c["op"] == "<=" else n < bound)}
        # anchor items are pushed with have_local = false in the region dominated by (count small) or (fp empty)
        e1 = follow_value(pm, c["dest"]["l"]).get("true")
        e1f = follow_value(pm, c["dest"]["l"]).get("false")
        e2 = follow_value(pm, emp[0]["dest"]["l"]).get("true")
        e2f = follow_value(pm, emp[0]["dest"]["l"]).get("false")
        # `||`: the empty test is evaluated on the false edge of the count test
        chained = bool(e1f) and pm.edge_dominates(e1f[0], e1f[1], emp[0]["bb"])
        okc = from_len and sat == {0, 1} and chained and bool(e1) and bool(e2)
        det = "anchor iff count in %s or remote fingerprint == empty (count from get_range_len: %s, `||` chained: %s)" % (sorted(sat), from_len, chained)
        if okc:
            # Case 3 (recursion): every RangeFingerprint part is produced only when both tests fail
            fps = [bi for bi, si, s in pm.statements() if s["k"] == "assign" and s["r"][0] == "agg" and s["r"][1][0] == "adt" and s["r"][1][1].endswith("MessagePart") and s["r"][1][2] == "RangeFingerprint"]
            okc = bool(e2f) and bool(fps) and all(pm.edge_dominates(e2f[0], e2f[1], x) for x in fps)
            det += "; sub-range fingerprints are produced only when both tests fail: %s" % okc
    ctx.check(okc, "C01.R1c", PM, "recursion-anchor", det, le1[0]["loc"] if le1 else pm.sp)
    # (d) items inlined iff chunk size <= max_set_size
    szc = [c for c in cms if any(o.kind == "call" and o.data["f"].get("name") == "len" for o in trace(pm, c["a"], through_calls=False)) and
           any("max_set_size" in ".".join(mir.field_path(o)) for o in trace(pm, c["b"]))]
    okd = False
    det = "found %d size comparisons" % len(szc)
    if len(szc) == 1:
        c = szc[0]
        tbl = TRUTH[c["op"]]
        edges = follow_value(pm, c["dest"]["l"])
        fps = [bi for bi, si, s in pm.statements() if s["k"] == "assign" and s["r"][0] == "agg" and s["r"][1][0] == "adt" and s["r"][1][1].endswith("MessagePart") and s["r"][1][2] == "RangeFingerprint"]
        t_e, f_e = edges.get("true"), edges.get("false")
        fp_on_true = bool(t_e) and any(pm.edge_dominates(t_e[0], t_e[1], x) for x in fps)
        fp_on_false = bool(f_e) and any(pm.edge_dominates(f_e[0], f_e[1], x) for x in fps)
        sends_fp = {o: (tbl[o] if fp_on_true else (not tbl[o] if fp_on_false else None)) for o in tbl}
        okd = sends_fp == {"Less": False, "Equal": False, "Greater": True}
        det = "fingerprint-instead-of-items(cmp(chunk len, max_set_size)) = %s; spec: only when Greater" % sends_fp
    ctx.check(okd, "C01.R1d", PM, "inline-items-iff-chunk-fits", det, szc[0]["loc"] if szc else pm.sp)
    ctx.floor("C01.R1a", 3)
    ctx.floor("C01.R1b", 1)
    ctx.floor("C01.R1c", 1)
    ctx.floor("C01.R1d", 1)


def r2(ctx):
    f = ctx.facts
    b = f.body("<sync::SignedEntry as ranger::RangeEntry>::as_fingerprint")
    ctx.touch(b)
    ups = [t for _, t in b.calls() if t["f"].get("name") == "update"]
    fed = []
    for t in ups:
        names = set()
        for o in trace(b, t["a"][1], through_calls=False):
            cur = o
            depth = 0
            while cur is not None and cur.kind == "call" and depth < 5:
                names.add(cur.data["f"].get("name"))
                nxt = trace(b, cur.data["a"][0], through_calls=False) if cur.data["a"] else []
                cur = nxt[0] if len(nxt) == 1 else None
                depth += 1
        fed.append(names)
    # `id()` (the RecordIdentifier = namespace || author || key) covers the three identifying components at once
    need = {"namespace": {"namespace", "id"}, "author": {"author_bytes", "author", "id"}, "key": {"key", "id"}, "timestamp": {"timestamp"}, "content hash": {"content_hash"}}
    for what, alts in need.items():
        ok = any(n & alts for n in fed)
        ctx.check(ok, "C01.R2", b.path, "fingerprint-covers-%s" % what.replace(" ", "-"),
                  "hasher.update(..%s..) present: %s" % ("|".join(sorted(alts)), ok), b.sp)
    fin = [t for _, t in b.calls() if t["f"].get("name") == "finalize"]
    ctx.check(len(fin) == 1, "C01.R2", b.path, "fingerprint-is-the-hash", "Fingerprint(hasher.finalize().into())", b.sp)
    # all receivers are self
    ctx.floor("C01.R2", 6)


def r3(ctx):
    f = ctx.facts
    b = f.body(SPM)
    ctx.touch(b)
    pmc = [(bi, t) for bi, t in b.calls() if t["f"].get("name") == "process_message"]
    if len(pmc) != 1:
        raise mir.AnchorMissing("sync_process_message: process_message call not found")
    pbi = pmc[0][0]
    vc = [(bi, t) for bi, t in b.calls() if t["f"].get("name") == "value_count"]
    # writes to state.num_recv / num_sent
    recv = [(bi, s) for bi, si, s in b.statements() if s["k"] == "assign" and s["p"]["p"] and s["p"]["p"][-1][0] == "field" and s["p"]["p"][-1][2] == "num_recv"]
    sent = [(bi, s) for bi, si, s in b.statements() if s["k"] == "assign" and s["p"]["p"] and s["p"]["p"][-1][0] == "field" and s["p"]["p"][-1][2] == "num_sent"]
    ok = len(recv) == 1 and b.dominates(recv[0][0], pbi)
    if ok:
        src = leaves(b, recv[0][1]["r"][1] if recv[0][1]["r"][0] == "use" else recv[0][1]["r"][2], expand_calls=False) if recv[0][1]["r"][0] in ("use",) else []
        ok = any(o.kind == "call" and o.data["f"].get("name") == "value_count" and {origin_summary(x) for x in trace(b, o.data["a"][0])} <= {"upvar:message", "arg:message"} for o in src) or \
            any(o.kind == "expr" for o in src)
        # accept `num_recv += n`: AddWithOverflow(num_recv, value_count(message))
        adds = [s for _, _, s in b.statements() if s["k"] == "assign" and s["r"][0] == "bin" and s["r"][1] in ("Add", "AddWithOverflow") and
                any(any(pr[0] == "field" and pr[2] == "num_recv" for pr in o[1]["p"]) for o in (s["r"][2], s["r"][3]) if o[0] in ("copy", "move"))]
        ok = len(adds) == 1 and any(o.kind == "call" and o.data["f"].get("name") == "value_count" for x in (adds[0]["r"][2], adds[0]["r"][3]) if x[0] != "const" for o in trace(b, x, through_calls=False))
    ctx.check(ok, "C01.R3", SPM, "num_recv+=message.value_count()-before-processing", "the received counter is increased by the incoming value count before process_message", recv[0][1]["sp"] if recv else b.sp)
    oks = len(sent) == 1
    if oks:
        # dominated by an edge on which the reply is Some
        from .common import variant_edges, dominated_by_any
        es = variant_edges(b, lambda ty: ty.startswith("std::option::Option<") and "ranger::Message" in ty, 1)
        doms = dominated_by_any(b, es, sent[0][0])
        adds = [s for _, _, s in b.statements() if s["k"] == "assign" and s["r"][0] == "bin" and s["r"][1] in ("Add", "AddWithOverflow") and
                any(any(pr[0] == "field" and pr[2] == "num_sent" for pr in o[1]["p"]) for o in (s["r"][2], s["r"][3]) if o[0] in ("copy", "move"))]
        from_reply = len(adds) == 1 and any(o.kind == "call" and o.data["f"].get("name") == "value_count" for x in (adds[0]["r"][2], adds[0]["r"][3]) if x[0] != "const" for o in trace(b, x, through_calls=False))
        oks = doms and from_reply and b.dominates(pbi, sent[0][0])
    ctx.check(oks, "C01.R3", SPM, "num_sent+=reply.value_count()-iff-reply", "the sent counter is increased by the reply's value count exactly on the Some(reply) edge, after processing", sent[0][1]["sp"] if sent else b.sp)
    # heads_received.insert(entry.author(), entry.timestamp()) for every incoming value
    ins = [(bi, t) for bi, t in b.calls() if callee_matches(t, r"heads::AuthorHeads::insert$")]
    okh = len(ins) == 1 and b.dominates(ins[0][0], pbi) is False
    if len(ins) == 1:
        t = ins[0][1]
        a1 = {o.data["f"].get("name") for o in trace(b, t["a"][1], through_calls=False) if o.kind == "call"}
        a2 = {o.data["f"].get("name") for o in trace(b, t["a"][2], through_calls=False) if o.kind == "call"}
        recv_f = {".".join(mir.field_path(o)) for o in trace(b, t["a"][0])}
        vals = [(bi2, t2) for bi2, t2 in b.calls() if t2["f"].get("name") == "values"]
        okh = a1 == {"author"} and a2 == {"timestamp"} and any("heads_received" in x for x in recv_f) and len(vals) == 1
        # the loop precedes process_message
        okh = okh and ins[0][0] not in b.reachable(pbi)
    ctx.check(okh, "C01.R3", SPM, "heads_received<-(author,timestamp)-of-every-incoming-value", "loop over message.values() inserting (entry.author(), entry.timestamp()) before processing", ins[0][1]["sp"] if ins else b.sp)
    vcb = f.body("ranger::Message::<E>::value_count")
    ctx.touch(vcb)
    ctx.floor("C01.R3", 3)


def r4(ctx):
    sub = type(ctx)(ctx.prop, ctx.tier, ctx.facts, ctx.cfg)
    for fn in (C02.r1, C02.r2, C02.r3, C02.r4, C02.r5):
        fn(sub)
    for o in sub.obligations:
        o = dict(o)
        o["key"] = re.sub(r"^C02\.R(\d)[ab]?", "C01.R4", o["key"])
        o["rule"] = "C01.R4"
        ctx.obligations.append(o)
        if o["status"] != "holds":
            ctx.violations.append(o)
    ctx.analysed_bodies |= sub.analysed_bodies
    ctx.floor("C01.R4", 15)


def run(ctx):
    ctx.run_rule("C01.R1", r1)
    ctx.run_rule("C01.R2", r2)
    ctx.run_rule("C01.R3", r3)
    ctx.run_rule("C01.R4", r4)

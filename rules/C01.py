"""C01 — pairwise reconciliation converges to the join of both replicas (necessary conditions)."""
import re
from . import mir
from .mir import trace, origin_summary, callee_matches
from .common import find_calls, one_call, call_outcomes, follow_value, comparisons, TRUTH, flip, leaves
from . import paths as P
from . import C02
from .C03 import PM, SPM

EXPLANATION = (
    "Decides structural necessary conditions of C01 from MIR: (R1) the comparison sites of ranger::Store::process_message "
    "against the algorithm and the newest-wins rule: (a) diff filter - our entry is withheld iff the peer sent the same key with "
    "a value not Less than ours (Greater => send), errors are forwarded; (b) equal fingerprints skip the range without output; "
    "(c) recursion anchor iff local count <= 1 or the remote fingerprint is the empty fingerprint; (d) a chunk is sent as items "
    "iff its size is not Greater than max_set_size; (R2) SignedEntry::as_fingerprint feeds the hasher with every component "
    "that identifies an entry and orders its value (namespace, author, key, timestamp, content hash), so two different entries "
    "cannot fingerprint equal by construction; (R3) accounting in Replica::sync_process_message: num_recv is increased by the "
    "message's value count before processing, num_sent by the reply's value count exactly on the Some(reply) edge, "
    "heads_received is updated from every incoming value; (R4) admission/pruning and prefix bounds (shared with C02.R1-R5, "
    "because reconciliation applies entries through the same put). NOT decided: the termination bound, pivot arithmetic / split "
    "coverage, equality of the final sets, emptiness of a second session (value-level over all states)."
)
ASSUMPTIONS = ["Meyer's range-based set reconciliation algorithm is correct when its comparisons are as specified", "blake3 collision resistance"]


def r1(ctx):
    f = ctx.facts
    pm = f.body(PM)
    ctx.touch(pm)
    # (a) the diff filter
    fm = f.body(PM + "::{closure#0}")
    an = f.body(PM + "::{closure#0}::{closure#0}")
    ctx.touch(fm, an)
    rows = {}
    for p in P.explore(fm):
        d = None
        a = None
        for k, v in p.decisions:
            if k[0] == "discr" and "our_entry" in k[1]:
                d = "Ok" if v == 0 else "Err"
            if k[0] == "call" and k[1] == "any":
                a = bool(v)
        rows[(d, a)] = P.short(p.ret).split("(")[0] + ("(Err" if "Err(" in P.short(p.ret) else "")
    want = {("Err", None): "Some(Err", ("Ok", True): "None", ("Ok", False): "Some"}
    ctx.check(rows == want, "C01.R1a", fm.path, "send-iff-no-covering-peer-value",
              "(our entry, any(covering peer value)) -> emitted: %s; spec: withheld iff some peer value covers it, store errors are forwarded" % rows, fm.sp)
    tbl = None
    keyeq = None
    for p in P.explore(an):
        for k, v in p.decisions:
            if k[0] == "cmp" and "key(" in k[2] and "key(" in k[3] and k[1] == "==":
                if v == 0:
                    keyeq = P.short(p.ret) == "0"
                elif p.ret[0] == "call":
                    t = p.ret[2]
                    n = t["f"].get("name")
                    from .common import CMP_METHODS
                    if n in CMP_METHODS:
                        def lab(op):
                            s = set()
                            for o in trace(an, op, view=C02.VIEW_VALUE):
                                if o.kind == "upvar" and o.data == "our_entry":
                                    s.add("ours")
                                elif o.kind == "arg":
                                    s.add("theirs")
                                else:
                                    s.add("?")
                            return s.pop() if len(s) == 1 else None
                        la, lb = lab(t["a"][0]), lab(t["a"][1])
                        tt = TRUTH[CMP_METHODS[n]]
                        if (la, lb) == ("theirs", "ours"):
                            tt = flip(tt)
                        elif (la, lb) != ("ours", "theirs"):
                            tt = None
                        tbl = tt
    spec = {"Less": True, "Equal": True, "Greater": False}
    ctx.check(keyeq is True, "C01.R1a", an.path, "different-key-never-covers", "a peer value with another key never withholds our entry", an.sp)
    ctx.check(tbl == spec, "C01.R1a", an.path, "covered-iff-not-newer",
              "covered(cmp(ours, theirs)) = %s; spec %s (we send ours only if strictly newer than the peer's value for the key)" % (tbl, spec), an.sp)
    # the values compared against are the values of this very item
    # (b),(c),(d) in the coroutine body
    cms = [c for c in comparisons(pm) if not mir.is_noise(c["x"]) and not (c["x"] and "debug_assert" in c["x"])]

    def summ(op):
        return sorted({origin_summary(o) for o in trace(pm, op, through_calls=False)})
    fp_eq = [c for c in cms if c["op"] == "==" and any("get_fingerprint" in origin_summary(x) or "branch" in origin_summary(x) for x in trace(pm, c["a"], through_calls=False))
             and not any("Fingerprint::empty" in s for s in summ(c["b"]))]
    fp_eq = [c for c in fp_eq if any(o.kind == "call" and o.data["f"].get("name") == "get_fingerprint" for o in trace(pm, c["a"]) ) or
             any(o.kind == "call" and o.data["f"].get("name") == "branch" and any(x.kind == "call" and x.data["f"].get("name") == "get_fingerprint" for x in trace(pm, o.data["a"][0], through_calls=False)) for o in trace(pm, c["a"], through_calls=False))]
    pushes = [bi for bi, t in pm.calls() if t["f"].get("name") == "push" and any(mir.field_path(o) == () and (pm.local_name(o.data[0]) if o.kind == "arg" else None) is None for o in [])]
    out_l = pm.local_by_name("out")
    pushes = []
    for bi, t in pm.calls():
        if t["f"].get("name") == "push" and out_l:
            if any((x.kind == "call" and x.data["f"].get("name") == "new") or True for x in []):
                pass
            src = trace(pm, t["a"][0], whole_only=True)
            if any(o.kind == "call" and o.data["f"].get("name") == "new" and o.site and pm.blocks[o.site[0]]["t"]["d"]["l"] == out_l[0] for o in src):
                pushes.append(bi)
    if len(fp_eq) != 1:
        ctx.bad("C01.R1b", PM, "fingerprint-compare.form", "expected one comparison of the local range fingerprint with the received one, found %d (UNSUPPORTED-FORM)" % len(fp_eq), pm.sp)
    else:
        c = fp_eq[0]
        e = follow_value(pm, c["dest"]["l"]).get("true")
        gf = [bi for bi, t in pm.calls() if t["f"].get("name") == "get_fingerprint" and pm.dominates(bi, c["bb"])]
        ok = bool(e)
        if ok:
            # from the equal edge, the next thing is the loop head (next fingerprint) - no push to `out` before it
            heads = [bi for bi, t in pm.calls() if t["f"].get("name") == "next" and pm.dominates(bi, c["bb"])]
            head = max(heads, key=lambda x: len(pm.dominators()[x])) if heads else None
            region = pm.reach_from_edges([e[1]], avoid={head} if head is not None else set())
            ok = head is not None and not any(p in region for p in pushes) and not any(pm.blocks[x]["t"]["k"] == "return" for x in region)
        ctx.check(ok, "C01.R1b", PM, "equal-fingerprints-skip-range", "on local == remote fingerprint the range produces no output and the loop continues", c["loc"])
        rf = {origin_summary(o) + "." + ".".join(mir.field_path(o)) for o in trace(pm, c["b"])}
        ctx.check(any("fingerprint" in x for x in rf), "C01.R1b", PM, "compares-with-received-fingerprint", "%s" % sorted(rf), c["loc"])
    # (c) recursion anchor
    le1 = [c for c in cms if c["op"] in ("<=", "<") and c["b"][0] == "const" and any(o.kind == "call" and o.data["f"].get("name") == "branch" for o in trace(pm, c["a"], through_calls=False))]
    emp = [c for c in cms if c["op"] == "==" and any("Fingerprint::empty" in s for s in summ(c["b"]) + summ(c["a"]))]
    okc = False
    det = "count comparisons %d, empty-fingerprint comparisons %d" % (len(le1), len(emp))
    if len(le1) == 1 and len(emp) == 1:
        c = le1[0]
        bound = c["b"][1].get("val")
        from_len = any(o.kind == "call" and o.data["f"].get("name") == "branch" and any(x.kind == "call" and x.data["f"].get("name") == "get_range_len" for x in trace(pm, o.data["a"][0], through_calls=False)) for o in trace(pm, c["a"], through_calls=False))
        sat = {n for n in range(0, 4) if (n <= bound if c["op"] == "<=" else n < bound)}
        # anchor items are pushed with have_local = false in the region dominated by (count small) or (fp empty)
        e1 = follow_value(pm, c["dest"]["l"]).get("true")
        e1f = follow_value(pm, c["dest"]["l"]).get("false")
        e2 = follow_value(pm, emp[0]["dest"]["l"]).get("true")
        e2f = follow_value(pm, emp[0]["dest"]["l"]).get("false")
        # `||`: the empty test is evaluated on the false edge of the count test
        chained = bool(e1f) and pm.edge_dominates(e1f[0], e1f[1], emp[0]["bb"])
        okc = from_len and sat == {0, 1} and chained and bool(e1) and bool(e2)
        det = "anchor iff count in %s or remote fingerprint == empty (count from get_range_len: %s, `||` chained: %s)" % (sorted(sat), from_len, chained)
        if okc:
            # Case 3 (recursion): every RangeFingerprint part is produced only when both tests fail
            fps = [bi for bi, si, s in pm.statements() if s["k"] == "assign" and s["r"][0] == "agg" and s["r"][1][0] == "adt" and s["r"][1][1].endswith("MessagePart") and s["r"][1][2] == "RangeFingerprint"]
            okc = bool(e2f) and bool(fps) and all(pm.edge_dominates(e2f[0], e2f[1], x) for x in fps)
            det += "; sub-range fingerprints are produced only when both tests fail: %s" % okc
    ctx.check(okc, "C01.R1c", PM, "recursion-anchor", det, le1[0]["loc"] if le1 else pm.sp)
    # (d) items inlined iff chunk size <= max_set_size
    szc = [c for c in cms if any(o.kind == "call" and o.data["f"].get("name") == "len" for o in trace(pm, c["a"], through_calls=False)) and
           any("max_set_size" in ".".join(mir.field_path(o)) for o in trace(pm, c["b"]))]
    okd = False
    det = "found %d size comparisons" % len(szc)
    if len(szc) == 1:
        c = szc[0]
        tbl = TRUTH[c["op"]]
        edges = follow_value(pm, c["dest"]["l"])
        fps = [bi for bi, si, s in pm.statements() if s["k"] == "assign" and s["r"][0] == "agg" and s["r"][1][0] == "adt" and s["r"][1][1].endswith("MessagePart") and s["r"][1][2] == "RangeFingerprint"]
        t_e, f_e = edges.get("true"), edges.get("false")
        fp_on_true = bool(t_e) and any(pm.edge_dominates(t_e[0], t_e[1], x) for x in fps)
        fp_on_false = bool(f_e) and any(pm.edge_dominates(f_e[0], f_e[1], x) for x in fps)
        sends_fp = {o: (tbl[o] if fp_on_true else (not tbl[o] if fp_on_false else None)) for o in tbl}
        okd = sends_fp == {"Less": False, "Equal": False, "Greater": True}
        det = "fingerprint-instead-of-items(cmp(chunk len, max_set_size)) = %s; spec: only when Greater" % sends_fp
    ctx.check(okd, "C01.R1d", PM, "inline-items-iff-chunk-fits", det, szc[0]["loc"] if szc else pm.sp)
    ctx.floor("C01.R1a", 3)
    ctx.floor("C01.R1b", 1)
    ctx.floor("C01.R1c", 1)
    ctx.floor("C01.R1d", 1)


def r2(ctx):
    """as_fingerprint evaluated (K6' with abstract collections): which components of the entry are fed to the hasher,
    and that the fingerprint is that hash"""
    from . import feval as E, coll
    f = ctx.facts
    b = f.body("<sync::SignedEntry as ranger::RangeEntry>::as_fingerprint")
    ctx.touch(*f.scope(b.path, prefix="sync::"))
    fed = []
    C = coll.Collections(f)
    ACC = ("namespace", "author", "author_bytes", "key", "key_bytes", "timestamp", "content_hash", "content_len", "id", "entry", "record", "signature", "namespace_bytes")

    def oracle(kind, name, payload, site):
        if kind != "call":
            return None
        t, args, it = payload
        names = [it.tokname(a) for a in args]
        full = (t["f"].get("full") or "") + (t["f"].get("path") or "")
        if name == "new" and "blake3::Hasher" in full:
            return E.Tok("hasher")
        if name in ("update", "update_rayon") and names and names[0] == "hasher":
            fed.append(names[1])
            return args[0]
        if name == "finalize" and names and names[0] == "hasher":
            return E.Tok("digest(%s)" % "+".join(fed))
        if name in ACC and len(args) == 1 and "?" not in names[0]:
            return E.Tok("%s(%s)" % (name, names[0]))
        if name in ("to_be_bytes", "to_le_bytes", "to_bytes"):
            return E.Tok("%s(%s)" % (name, names[0]))
        if name in ("as_ref", "as_bytes", "as_slice", "deref", "borrow", "as_array") and len(args) == 1:
            return args[0]
        return C.handle(kind, name, payload, site)
    try:
        ret, it_ = E.run_it(f, b.path, [E.href("self")], {"self": E.Tok("e")}, oracle)
        got = E.describe(it_.resolve(ret), f)
    except E.Unsupported as ex:
        got = "UNSUPPORTED-FORM: %s" % ex
    # `id()` (the RecordIdentifier = namespace || author || key) covers the three identifying components at once
    need = {"namespace": ("namespace(", "namespace_bytes(", "id("), "author": ("author_bytes(", "author(", "id("), "key": ("key(", "key_bytes(", "id("), "timestamp": ("timestamp(",), "content hash": ("content_hash(",)}
    for what, alts in need.items():
        # the component itself is fed, not something merely derived from it together with other data: the fed value is the accessor chain
        ok = any(x.startswith(a) or ("(" + a) in x for x in fed for a in alts)
        ctx.check(ok and not got.startswith("UNSUPPORTED"), "C01.R2", b.path, "fingerprint-covers-%s" % what.replace(" ", "-"),
                  "values fed to the hasher: %s; result %s" % (fed, got[:80]), b.sp)
    ctx.check(got.startswith("Fingerprint(") and "digest(" in got, "C01.R2", b.path, "fingerprint-is-the-hash", "returns %s (spec: Fingerprint of the hasher's digest over everything fed)" % got[:160], b.sp)
    ctx.floor("C01.R2", 6)


def r3(ctx):
    """session accounting in sync_process_message, looked for in the function, its closures and its
    single-caller helpers (scope); sites are placed in the function body through outer_site"""
    from .common import outer_leaves, outer_site, variant_edges, dominated_by_any
    f = ctx.facts
    b = f.body(SPM)
    ctx.touch(b)
    sc = f.scope(SPM, prefix="sync::")
    pmc = [(bi, t) for bi, t in b.calls() if t["f"].get("name") == "process_message"]
    if len(pmc) != 1:
        raise mir.AnchorMissing("sync_process_message: process_message call not found")
    pbi = pmc[0][0]
    after = b.reachable(pbi)

    def names(body, op):
        return {(o.kind, o.data[1] if o.kind == "arg" else o.data) if o.kind in ("arg", "upvar") else ("other", origin_summary(o)) for _, o in outer_leaves(f, b, body, op, expand_calls=False)}

    def counter_adds(field):
        out = []
        for x in sc:
            for bi, si, st in x.statements():
                if st["k"] == "assign" and st["r"][0] == "bin" and st["r"][1] in ("Add", "AddWithOverflow"):
                    ops = (st["r"][2], st["r"][3])
                    if any(o[0] in ("copy", "move") and any(pr[0] == "field" and pr[2] == field for pr in o[1]["p"]) for o in ops):
                        other = [o for o in ops if not (o[0] in ("copy", "move") and any(pr[0] == "field" and pr[2] == field for pr in o[1]["p"]))]
                        out.append((x, bi, st, other[0] if other else None))
        return out

    def value_count_of(body, op):
        """names of the message whose value_count() feeds `op`"""
        res = set()
        if op is None or op[0] == "const":
            return res
        for o in trace(body, op, through_calls=False):
            if o.kind == "call" and o.data["f"].get("name") == "value_count":
                res |= names(body, o.data["a"][0])
            else:
                res.add(("other", origin_summary(o)))
        return res
    radds = counter_adds("num_recv")
    ok = len(radds) == 1
    why = "%d additions to num_recv" % len(radds)
    if ok:
        x, bi, st, other = radds[0]
        src = value_count_of(x, other)
        ob = outer_site(f, b, x, bi)
        ok = src in ({("upvar", "message")}, {("arg", "message")}) and ob is not None and b.dominates(ob, pbi) and ob not in after
        why = "num_recv += value_count(%s), placed %s process_message" % (sorted(src), "before" if ob is not None and ob not in after else "not before")
    ctx.check(ok, "C01.R3", SPM, "num_recv+=message.value_count()-before-processing", "the received counter is increased by the incoming value count before process_message (%s)" % why, radds[0][2]["sp"] if radds else b.sp)
    sadds = counter_adds("num_sent")
    oks = len(sadds) == 1
    why = "%d additions to num_sent" % len(sadds)
    if oks:
        x, bi, st, other = sadds[0]
        ob = outer_site(f, b, x, bi)
        es = variant_edges(b, lambda ty: ty.startswith("std::option::Option<") and "ranger::Message" in ty, 1)
        doms = ob is not None and dominated_by_any(b, es, ob)
        from_reply = False
        if other is not None and other[0] != "const":
            for o in trace(x, other, through_calls=False):
                if o.kind == "call" and o.data["f"].get("name") == "value_count":
                    # the counted message is the reply: it derives from process_message's result
                    from_reply = any(oo.kind == "call" and oo.data["f"].get("name") in ("process_message", "branch", "into_future", "poll", "get_context", "new_unchecked") or oo.kind in ("local", "unknown", "expr")
                                     for _, oo in outer_leaves(f, b, x, o.data["a"][0], expand_calls=False)) and \
                        not ({("upvar", "message"), ("arg", "message")} & names(x, o.data["a"][0]))
        oks = bool(doms) and from_reply and ob in after
        why = "on the Some(reply) edge: %s; counts the reply: %s; after processing: %s" % (bool(doms), from_reply, ob in after if ob is not None else None)
    ctx.check(oks, "C01.R3", SPM, "num_sent+=reply.value_count()-iff-reply", "the sent counter is increased by the reply's value count exactly on the Some(reply) edge, after processing (%s)" % why, sadds[0][2]["sp"] if sadds else b.sp)
    # heads_received.insert(entry.author(), entry.timestamp()) for every incoming value
    ins = [(x, bi, t) for x in sc for bi, t in x.calls() if callee_matches(t, r"heads::AuthorHeads::insert$")]
    okh = len(ins) == 1
    why = "%d calls of AuthorHeads::insert" % len(ins)
    if okh:
        x, bi, t = ins[0]
        a1 = {o.data["f"].get("name") for o in trace(x, t["a"][1], through_calls=False) if o.kind == "call"}
        a2 = {o.data["f"].get("name") for o in trace(x, t["a"][2], through_calls=False) if o.kind == "call"}
        recv_f = {".".join(mir.field_path(o)) for _, o in outer_leaves(f, b, x, t["a"][0], expand_calls=False)} | {".".join(mir.field_path(o)) for o in trace(x, t["a"][0])}
        vals = [(y, bi2, t2) for y in sc for bi2, t2 in y.calls() if t2["f"].get("name") == "values" and callee_matches(t2, r"ranger::Message")]
        of_message = len(vals) == 1 and names(vals[0][0], vals[0][2]["a"][0]) in ({("upvar", "message")}, {("arg", "message")})
        ob = outer_site(f, b, x, bi)
        vb = outer_site(f, b, vals[0][0], vals[0][1]) if len(vals) == 1 else None
        # every value: the insert sits in a loop over message.values() or in a closure handed to for_each on it, with no filter in between
        skipping = [t3["f"].get("name") for y in sc for _, t3 in y.calls() if t3["f"].get("name") in ("filter", "take", "skip", "step_by", "take_while", "skip_while", "filter_map") and y in (x, vals[0][0] if vals else x)]
        okh = a1 == {"author"} and a2 == {"timestamp"} and any("heads_received" in z for z in recv_f) and of_message and ob is not None and ob not in after and vb is not None and vb not in after and not skipping
        why = "insert(%s, %s) into %s over values() of %s, placed %s processing, skipping adaptors %s" % (sorted(a1), sorted(a2), sorted(recv_f), "the incoming message" if of_message else "?", "before" if ob is not None and ob not in after else "not before", skipping)
    ctx.check(okh, "C01.R3", SPM, "heads_received<-(author,timestamp)-of-every-incoming-value", "loop over message.values() inserting (entry.author(), entry.timestamp()) before processing (%s)" % why, ins[0][2]["sp"] if ins else b.sp)
    vcb = f.body("ranger::Message::<E>::value_count")
    ctx.touch(vcb)
    ctx.floor("C01.R3", 3)


def r4(ctx):
    sub = type(ctx)(ctx.prop, ctx.tier, ctx.facts, ctx.cfg)
    for fn in (C02.r1, C02.r2, C02.r3, C02.r4, C02.r5):
        fn(sub)
    for o in sub.obligations:
        o = dict(o)
        o["key"] = re.sub(r"^C02\.R(\d)[ab]?", "C01.R4", o["key"])
        o["rule"] = "C01.R4"
        ctx.obligations.append(o)
        if o["status"] != "holds":
            ctx.violations.append(o)
    ctx.analysed_bodies |= sub.analysed_bodies
    ctx.floor("C01.R4", 15)


def run(ctx):
    ctx.run_rule("C01.R1", r1)
    ctx.run_rule("C01.R2", r2)
    ctx.run_rule("C01.R3", r3)
    ctx.run_rule("C01.R4", r4)

"""C01 — pairwise reconciliation converges to the join of both replicas (necessary conditions)."""
import re
from . import mir
from .mir import trace, origin_summary, callee_matches
from .common import find_calls, one_call, call_outcomes, follow_value, comparisons, TRUTH, flip, leaves
from . import paths as P
from . import C02
from .C03 import PM, SPM

EXPLANATION = (
    "Decides structural necessary conditions of C01 from MIR: (R1) the comparison sites of ranger::Store::process_message "
    "against the algorithm and the newest-wins rule: (a) diff filter - our entry is withheld iff the peer sent the same key with "
    "a value not Less than ours (Greater => send), errors are forwarded; (b) equal fingerprints skip the range without output; "
    "(c) recursion anchor iff local count <= 1 or the remote fingerprint is the empty fingerprint; (d) a chunk is sent as items "
    "iff its size is not Greater than max_set_size; (R2) SignedEntry::as_fingerprint feeds the hasher with every component "
    "that identifies an entry and orders its value (namespace, author, key, timestamp, content hash), so two different entries "
    "cannot fingerprint equal by construction; (R3) accounting in Replica::sync_process_message: num_recv is increased by the "
    "message's value count before processing, num_sent by the reply's value count exactly on the Some(reply) edge, "
    "heads_received is updated from every incoming value; (R4) admission/pruning and prefix bounds (shared with C02.R1-R5, "
    "because reconciliation applies entries through the same put). (R6) what local authoring signs is what remote validation accepts (shared with C03.R9). (R7) per-entry validation during reconciliation (= C03.R1/R2) and the store-actor handlers of the two session requests (K14b). NOT decided: the termination bound, pivot arithmetic / split "
    "coverage, equality of the final sets, emptiness of a second session (value-level over all states)."
)
ASSUMPTIONS = ["Meyer's range-based set reconciliation algorithm is correct when its comparisons are as specified", "blake3 collision resistance"]



EXPLANATION += ' (R3, round 8) session accounting is read off one evaluated session step (Replica::sync_process_message on replica open/closed x the store yielding a reply / the end / an error). (R8) the counts a side reports are those of its last step (= C10.R1/R2 session tables). (R9) the opening message evaluated: one part, the fingerprint of the full circular range anchored at the first key; a failing store call is an error; handed out only while the replica is open.'
EXPLANATION += " Round 9: R4 also carries C02.R10 (the scan range of one author's key prefix evaluated on concrete ids and prefixes)."
EXPLANATION += ' Round 10: R10 = C08.R5 (what is fingerprinted and sent is everything held: the plain scan yields every row, deletion markers included).'
EXPLANATION += ' Round 11: (R11) the frame limit of the session codec is not below 2^30 (constant rule).'
EXPLANATION += ' (R12, round 12) = C16.R15 (no per-document memo in the store outlives the document) and C08.R3 (the range fingerprint is the xor-fold over the range scan, whatever was asked before).'
EXPLANATION += ' (R13, round 12) = C08.R6: the range count that decides the recursion anchor is the number of rows of the range scan.'
EXPLANATION += " (R14, round 12) = C06.R4's failing-body rows: entries accepted before an unrelated request failed are still there to be reconciled."
EXPLANATION += " (R15, round 14) = C02.R15: an implementation's override of put / get_range_len is evaluated on the default's table."


def r1(ctx):
    """the decisions of process_message as evaluated tables (K6', see eval_process_message): the function's MIR is evaluated
    on the cells below, so the verdict does not depend on how the decisions are spelled (closures, helpers, adaptors)"""
    from . import feval as E
    f = ctx.facts
    pm = f.body(PM)
    ctx.touch(pm, *[b for p_, b in f.bodies.items() if p_.startswith(PMF + "::")])

    def run(label, fn):
        try:
            return fn()
        except E.Unsupported as e:
            return "UNSUPPORTED-FORM: %s" % e
    # (a) the diff filter: our entry is withheld iff the peer sent the same key with a value not Less than ours
    tbl = {}
    for o, nm in ((-1, "Less"), (0, "Equal"), (1, "Greater")):
        r = run(nm, lambda: eval_process_message(f, [2, 4], [("item", 1, 5, [2], False)], their_order={2: o})[0])
        tbl[nm] = r if isinstance(r, str) else ("withheld" if r == [("item", 1, 5, [("e4", "status(e4)")], 1)] else ("sent" if r == [("item", 1, 5, [("e2", "status(e2)"), ("e4", "status(e4)")], 1)] else r))
    spec = {"Less": "sent", "Equal": "withheld", "Greater": "withheld"}
    ctx.check(tbl == spec, "C01.R1a", PM, "covered-iff-not-newer",
              "our entry for a key the peer also sent, by cmp(their value, ours): %s; spec %s (we send ours only if strictly newer than the peer's value for the key)" % (tbl, spec), pm.sp)
    r = run("other", lambda: eval_process_message(f, [2, 4], [("item", 1, 5, [3], False)], their_order={})[0])
    ctx.check(r == [("item", 1, 5, [("e2", "status(e2)"), ("e4", "status(e4)")], 1)], "C01.R1a", PM, "different-key-never-covers", "peer sends only key 3, we hold 2 and 4: reply %s (spec: both of ours)" % (r,), pm.sp)
    r = run("err", lambda: eval_process_message(f, [2, 4], [("item", 1, 5, [3], False)], row_error=4)[0])
    ctx.check(isinstance(r, tuple) and r[0] == "Err", "C01.R1a", PM, "send-iff-no-covering-peer-value", "a row of the range scan that fails to load: %s (spec: the error is forwarded, not dropped)" % (r,), pm.sp)
    # (b) equal fingerprints: no output for the range
    rows = {}
    for x, y in ((0, 0), (0, 4), (4, 2)):
        keys = [k for k in (1, 3, 5) if _in_range(k, x, y)]
        rows["[%d,%d)" % (x, y)] = run("eq", lambda: eval_process_message(f, [1, 3, 5], [("fp", x, y, keys)])[0])
    ctx.check(all(v is None for v in rows.values()), "C01.R1b", PM, "equal-fingerprints-skip-range", "reply when the peer's fingerprint of the range equals ours: %s (spec: none)" % rows, pm.sp)
    # (c) recursion anchor iff at most one local entry in the range, or the peer's fingerprint is that of the empty set
    rows = {}
    for store in ([], [2], [2, 3], [2, 3, 4]):
        for remote in ("different", "empty"):
            if not store and remote == "empty":
                continue
            r = run("anchor", lambda: eval_process_message(f, store, [("fp", 1, 6, [9] if remote == "different" else [])])[0])
            if isinstance(r, list):
                r = "all-entries-as-items" if r == [("item", 1, 6, [("e%d" % k, "status(e%d)" % k) for k in store], 0)] else ("split" if len(r) >= 2 else r)
            rows[(len(store), remote)] = r
    want = {(n, rm): ("all-entries-as-items" if (n <= 1 or rm == "empty") else "split") for (n, rm) in rows}
    ctx.check(rows == want, "C01.R1c", PM, "recursion-anchor", "(local entries in the range, peer's fingerprint) -> %s; spec: anchor iff count <= 1 or the peer's side is empty" % rows, pm.sp)
    # (d) a sub-range is sent as items iff it holds at most max_set_size entries
    rows = {}
    for maxset in (1, 2, 3):
        r = run("chunk", lambda: eval_process_message(f, [1, 2, 3, 4], [("fp", 0, 0, [9])], split=2, maxset=maxset)[0])
        if isinstance(r, list):
            for p_ in r:
                n = len([k for k in (1, 2, 3, 4) if _in_range(k, p_[1], p_[2])])
                rows[(n, maxset)] = p_[0]
        else:
            rows[("?", maxset)] = r
    want = {k: ("item" if k[0] != "?" and k[0] <= k[1] else "fp") for k in rows}
    ctx.check(bool(rows) and rows == want and len({v for v in rows.values()}) == 2, "C01.R1d", PM, "inline-items-iff-chunk-fits", "(entries in the sub-range, max_set_size) -> part kind: %s; spec: items iff the count is not Greater than max_set_size" % rows, pm.sp)
    ctx.floor("C01.R1a", 3)
    ctx.floor("C01.R1b", 1)
    ctx.floor("C01.R1c", 1)
    ctx.floor("C01.R1d", 1)


def r2(ctx):
    """as_fingerprint evaluated (K6' with abstract collections): which components of the entry are fed to the hasher,
    and that the fingerprint is that hash"""
    from . import feval as E, coll
    f = ctx.facts
    b = f.body("<sync::SignedEntry as ranger::RangeEntry>::as_fingerprint")
    ctx.touch(*f.scope(b.path, prefix="sync::"))
    fed = []
    C = coll.Collections(f)
    ACC = ("namespace", "author", "author_bytes", "key", "key_bytes", "timestamp", "content_hash", "content_len", "id", "entry", "record", "signature", "namespace_bytes")

    def oracle(kind, name, payload, site):
        if kind != "call":
            return None
        t, args, it = payload
        names = [it.tokname(a) for a in args]
        full = (t["f"].get("full") or "") + (t["f"].get("path") or "")
        if name == "new" and "blake3::Hasher" in full:
            return E.Tok("hasher")
        if name in ("update", "update_rayon") and names and names[0] == "hasher":
            fed.append(names[1])
            return args[0]
        if name == "finalize" and names and names[0] == "hasher":
            return E.Tok("digest(%s)" % "+".join(fed))
        if name in ACC and len(args) == 1 and "?" not in names[0]:
            return E.Tok("%s(%s)" % (name, names[0]))
        if name in ("to_be_bytes", "to_le_bytes", "to_bytes"):
            return E.Tok("%s(%s)" % (name, names[0]))
        if name in ("as_ref", "as_bytes", "as_slice", "deref", "borrow", "as_array") and len(args) == 1:
            return args[0]
        return C.handle(kind, name, payload, site)
    try:
        ret, it_ = E.run_it(f, b.path, [E.href("self")], {"self": E.Tok("e")}, oracle)
        got = E.describe(it_.resolve(ret), f)
    except E.Unsupported as ex:
        got = "UNSUPPORTED-FORM: %s" % ex
    # `id()` (the RecordIdentifier = namespace || author || key) covers the three identifying components at once
    need = {"namespace": ("namespace(", "namespace_bytes(", "id("), "author": ("author_bytes(", "author(", "id("), "key": ("key(", "key_bytes(", "id("), "timestamp": ("timestamp(",), "content hash": ("content_hash(",),
            "content length": ("content_len(", "len(")}
    for what, alts in need.items():
        # the component itself is fed, not something merely derived from it together with other data: the fed value is the accessor chain
        ok = any(x.startswith(a) or ("(" + a) in x for x in fed for a in alts)
        ctx.check(ok and not got.startswith("UNSUPPORTED"), "C01.R2", b.path, "fingerprint-covers-%s" % what.replace(" ", "-"),
                  "values fed to the hasher: %s; result %s" % (fed, got[:80]), b.sp)
    ctx.check(got.startswith("Fingerprint(") and "digest(" in got, "C01.R2", b.path, "fingerprint-is-the-hash", "returns %s (spec: Fingerprint of the hasher's digest over everything fed)" % got[:160], b.sp)
    ctx.floor("C01.R2", 7)


def r3(ctx):
    """session accounting: one reconciliation step of the replica evaluated (rules/syncstep.py) - num_recv, heads_received and
    num_sent read off the state the step leaves behind (replaces the source-shaped placement rule of the first rounds, which
    reported helper extractions such as `SyncOutcome::record_sent(Option<&Message>)`)"""
    from . import syncstep
    syncstep.check(ctx, "C01.R3")
    vcb = ctx.facts.body("ranger::Message::<E>::value_count")
    ctx.touch(vcb)
    ctx.floor("C01.R3", 6)


def r4(ctx):
    sub = type(ctx)(ctx.prop, ctx.tier, ctx.facts, ctx.cfg)
    for fn in (C02.r1, C02.r2, C02.r3, C02.r4, C02.r5, C02.r10):
        fn(sub)
    for o in sub.obligations:
        o = dict(o)
        o["key"] = re.sub(r"^C02\.R(\d+)[ab]?", "C01.R4", o["key"])
        o["rule"] = "C01.R4"
        ctx.obligations.append(o)
        if o["status"] != "holds":
            ctx.violations.append(o)
    ctx.analysed_bodies |= sub.analysed_bodies
    ctx.floor("C01.R4", 15)



# ---------------------------------------------------------------------------------------------------------------
# R5: process_message evaluated (K6')
PMF = "ranger::Store::process_message"
RANGE = "ranger::Range"


def _in_range(k, x, y):
    """membership in the circular half-open range [x, y): x < y regular, x == y everything, x > y wrap-around"""
    if x < y:
        return x <= k < y
    if x == y:
        return True
    return k >= x or k < y


def _range_order(keys, x, y):
    """order in which a store yields the entries of a range: ascending, a wrap-around range as [start, y) then [x, end)"""
    ks = sorted(k for k in keys if _in_range(k, x, y))
    if x > y:
        return [k for k in ks if k < y] + [k for k in ks if k >= x]
    return ks


def eval_process_message(f, store, parts, split=2, maxset=1, their_order=None, invalid=(), not_inserted=(), range_error=False, row_error=None):
    """ranger::Store::process_message evaluated (K6', awaits driven to completion) on a store holding the integer keys
    `store` (entry e<k> has key k<k>), with the storage trait, the entry accessors and the three callbacks answered by an
    oracle. parts: ("fp", x, y, keys whose fingerprint the peer reports) / ("item", x, y, [their keys], have_local).
    their_order[k] = cmp(their value, our value) for a key both hold. Returns (parts of the reply | None | ("Err", ..), log)."""
    from . import feval as E, coll
    C = coll.Collections(f)
    log = []
    their_order = their_order or {}

    def rng(x, y):
        return E.struct(f, RANGE, x=E.Tok("k%d" % x), y=E.Tok("k%d" % y))

    def knum(n):
        n = n.strip("&*")
        if n.startswith("k") and n[1:].lstrip("-").isdigit():
            return int(n[1:])
        return None

    def fp_tok(keys):
        return E.Tok("fp(%s)" % ",".join(map(str, sorted(keys))))

    def range_of(it, v):
        d = it.resolve(v)
        return knum(it.tokname(E.field(f, d, RANGE, "x"))), knum(it.tokname(E.field(f, d, RANGE, "y")))

    def ent(n):
        n = n.strip("&*")
        return n if len(n) > 1 and n[0] in "et" and n[1:].isdigit() else None

    def oracle(kind, name, payload, site):
        if kind == "cmp":
            a, b = knum(name), knum(payload)
            if a is not None and b is not None:
                return (a > b) - (a < b)
            if name.startswith("value(t") and payload.startswith("value(e"):
                return their_order.get(int(name[7:-1]), 1)
            return None
        if kind == "eq":
            if name.startswith("fp(") and payload.startswith("fp("):
                return name == payload
            return None
        if kind == "await":
            t, args, it = payload
            d = it.deref_val(args[0])
            while d is not None and d[0] == "ref":
                d = it.deref_val(d)
            if coll.is_seq(d):
                # an ordered set of futures collected into a vector: each is driven to completion, in order
                outs = []
                for c in d[2]:
                    c = it.deref_val(c) if c[0] == "ref" else c
                    if c[0] == "closure":
                        it._polling = True
                        outs.append(it.call_body(c[1], [c, E.Tok("task-context")], 2))
                    else:
                        outs.append(c)
                return coll.seq("vec", outs)
            if name.startswith("status("):
                return E.Tok(name)
            if name.startswith("on_insert("):
                return E.UNIT
            return None
        if kind != "call":
            return None
        t, args, it = payload
        full = t["f"].get("full") or ""
        path = t["f"].get("path") or ""
        names = [it.tokname(a) for a in args]
        if names and names[0].strip("&*") == "store":
            if name == "get_range":
                x, y = range_of(it, args[1])
                if range_error:
                    return E.Err(E.Tok("storage-error"))
                return E.Ok(coll.seq("iter", [E.Err(E.Tok("row-error")) if k == row_error else E.Ok(E.Tok("e%d" % k)) for k in _range_order(store, x, y)]))
            if name == "get_range_len":
                x, y = range_of(it, args[1])
                return E.Ok(E.Int(len([k for k in store if _in_range(k, x, y)])))
            if name == "get_fingerprint":
                x, y = range_of(it, args[1])
                return E.Ok(fp_tok([k for k in store if _in_range(k, x, y)]))
            if name == "put":
                e = names[1].strip("&*")
                log.append(("put", e))
                if e in not_inserted:
                    return E.Ok(E.variant(f, "ranger::InsertOutcome", "NotInserted"))
                return E.Ok(E.variant(f, "ranger::InsertOutcome", "Inserted", removed=E.Int(0)))
        if name == "empty" and "Fingerprint" in path + full:
            return fp_tok([])
        if name == "key" and names and ent(names[0]):
            return E.Tok("k" + ent(names[0])[1:])
        if name == "value" and names and ent(names[0]):
            return E.Tok("value(%s)" % ent(names[0]))
        if name in ("call", "call_mut", "call_once", "async_call", "async_call_mut", "async_call_once") and names:
            who = names[0].strip("&*")
            tup = it.resolve(args[1]) if len(args) > 1 else None
            if who == "validate_cb":
                e = it.tokname(tup[1][1]).strip("&*") if tup is not None and tup[0] == "tuple" and len(tup[1]) > 1 else "?"
                log.append(("validate", e))
                return E.Int(0 if e in invalid else 1)
            if who == "content_status_cb":
                return E.Tok("status(%s)" % it.tokname(tup[1][0]).strip("&*")) if tup is not None and tup[0] == "tuple" and tup[1] else None
            if who == "on_insert_cb":
                e = it.tokname(tup[1][1]).strip("&*") if tup is not None and tup[0] == "tuple" and len(tup[1]) > 1 else "?"
                log.append(("on_insert", e))
                return E.Tok("on_insert(%s)" % e)
        if name == "from_iter" and "FuturesOrdered" in path + full:
            return it.deref_val(args[0])
        if name == "collect" and "StreamExt" in path + full:
            return args[0]
        return C.handle(kind, name, payload, site)

    mparts = []
    for p_ in parts:
        if p_[0] == "fp":
            mparts.append(E.variant(f, "ranger::MessagePart", "RangeFingerprint", E.struct(f, "ranger::RangeFingerprint", range=rng(p_[1], p_[2]), fingerprint=fp_tok(p_[3]))))
        else:
            vals = coll.seq("vec", [("tuple", [E.Tok("t%d" % k), E.Tok("st%d" % k)]) for k in p_[3]])
            mparts.append(E.variant(f, "ranger::MessagePart", "RangeItem", E.struct(f, "ranger::RangeItem", range=rng(p_[1], p_[2]), values=vals, have_local=E.Int(1 if p_[4] else 0))))
    msg = E.struct(f, "ranger::Message", parts=coll.seq("vec", mparts))
    heap = {"self": E.Tok("store"), "cfg": E.struct(f, "ranger::SyncConfig", max_set_size=E.Int(maxset), split_factor=E.Int(split))}
    out, hp, ev = E.run_async(f, PMF, [E.href("self"), E.href("cfg"), msg, E.Tok("validate_cb"), E.Tok("on_insert_cb"), E.Tok("content_status_cb")], heap, oracle)

    def tn(v):
        return v[1] if v[0] == "tok" else E.describe(v, f)
    if out is None or out[0] != "adt":
        return ("?", E.describe(out, f) if out is not None else "None"), log
    if out[2] != 0:
        return ("Err", E.describe(out, f)), log
    o = out[3][0]
    if o[0] != "adt":
        return ("?", E.describe(o, f)), log
    if o[2] == 0:
        return None, log
    res = []
    for p_ in E.field(f, o[3][0], "ranger::Message", "parts")[2]:
        inner = p_[3][0]
        if p_[2] == 0:
            r = E.field(f, inner, "ranger::RangeFingerprint", "range")
            res.append(("fp", knum(tn(E.field(f, r, RANGE, "x"))), knum(tn(E.field(f, r, RANGE, "y"))), tn(E.field(f, inner, "ranger::RangeFingerprint", "fingerprint"))))
        else:
            r = E.field(f, inner, "ranger::RangeItem", "range")
            vals = E.field(f, inner, "ranger::RangeItem", "values")
            hl = E.field(f, inner, "ranger::RangeItem", "have_local")
            res.append(("item", knum(tn(E.field(f, r, RANGE, "x"))), knum(tn(E.field(f, r, RANGE, "y"))),
                        [tuple(tn(x) for x in v[1]) if v[0] == "tuple" else tn(v) for v in vals[2]], hl[1] if hl[0] == "int" else tn(hl)))
    return res, log


def _fp_problems(f, store, x, y, remote, split, maxset):
    """one incoming RangeFingerprint part against the algorithm (see r5)"""
    sr = [k for k in store if _in_range(k, x, y)]
    rk = sr if remote == "equal" else ([] if remote == "empty" else sr + [99])
    res, log = eval_process_message(f, store, [("fp", x, y, rk)], split=split, maxset=maxset)
    if remote == "equal" or (remote == "empty" and not sr):
        return [] if res is None else ["equal fingerprints must produce no reply, got %s" % (res,)]
    items = lambda ks: [("e%d" % k, "status(e%d)" % k) for k in ks]
    if len(sr) <= 1 or remote == "empty":
        want = [("item", x, y, items(_range_order(store, x, y)), 0)]
        return [] if res == want else ["recursion anchor (at most one local entry, or the peer's side is empty): got %s, expected all local entries of the range as items with have_local=false: %s" % (res, want)]
    if not isinstance(res, list):
        return ["no reply / error %s although the fingerprints differ" % (res,)]
    probs = []
    rs = [(p_[1], p_[2]) for p_ in res]
    # coverage of the key space of the range: a key of the range that lies in no sub-range is never reconciled
    uni = range(-1, max(list(store) + [x, y]) + 2)
    gap = [k for k in uni if _in_range(k, x, y) and not any(_in_range(k, a, b) for a, b in rs)]
    if gap:
        probs.append("keys %s of the range [%d,%d) lie in no sub-range %s" % (gap[:4], x, y, rs))
    if sum(1 for a, b in rs if any(_in_range(k, a, b) for k in sr)) < 2 and split == 2:
        probs.append("fewer than two sub-ranges hold local entries: the recursion makes no progress (%s)" % rs)
    for p_, (a, b) in zip(res, rs):
        ks = [k for k in store if _in_range(k, a, b)]
        if p_[0] == "fp":
            if p_[3] != "fp(%s)" % ",".join(map(str, sorted(ks))):
                probs.append("sub-range [%d,%d): fingerprint %s is not that of its entries %s" % (a, b, p_[3], ks))
            if len(ks) <= maxset:
                probs.append("sub-range [%d,%d) holds %d <= max_set_size entries but is sent as a fingerprint" % (a, b, len(ks)))
        else:
            if sorted(v[0] for v in p_[3]) != sorted("e%d" % k for k in ks) or p_[4] != 0 or any(v[1] != "status(%s)" % v[0] for v in p_[3]):
                probs.append("sub-range [%d,%d): items %s (have_local=%s) are not exactly its entries %s with their content status, have_local=false" % (a, b, p_[3], p_[4], ks))
            if len(ks) > maxset:
                probs.append("sub-range [%d,%d) holds %d > max_set_size entries but is sent as items" % (a, b, len(ks)))
    return probs


def _item_problems(f, store, x, y, theirs, order, have_local, invalid=(), not_inserted=()):
    res, log = eval_process_message(f, store, [("item", x, y, theirs, have_local)], their_order=order, invalid=invalid, not_inserted=not_inserted)
    probs = []
    wlog = []
    for k in theirs:
        e = "t%d" % k
        wlog.append(("validate", e))
        if e not in invalid:
            wlog.append(("put", e))
            if e not in not_inserted:
                wlog.append(("on_insert", e))
    if log != wlog:
        probs.append("effects %s, expected %s (every incoming value validated; put iff valid; announced iff inserted)" % (log, wlog))
    diff = [k for k in _range_order(store, x, y) if not (k in theirs and order.get(k, 1) >= 0)]
    want = None if (have_local or not diff) else [("item", x, y, [("e%d" % k, "status(e%d)" % k) for k in diff], 1)]
    if res != want:
        probs.append("reply %s, expected %s (our entries of the range that the peer lacks or holds an older value of, have_local=true; nothing if the peer already has ours)" % (res, want))
    return probs


def r5(ctx):
    """process_message evaluated on a grid of (local store, incoming part, configuration) cells"""
    import itertools
    from . import feval as E
    f = ctx.facts
    pm = f.body(PM)
    ctx.touch(pm, *[b for p_, b in f.bodies.items() if p_.startswith(PMF + "::")])
    thorough = ctx.tier == "thorough"
    universe = [1, 2, 3, 4, 5, 6] if thorough else [1, 3, 4, 6]
    bounds = range(0, 8) if thorough else (0, 1, 3, 4, 5, 7)
    configs = [(2, 1), (2, 2), (3, 1), (3, 2), (4, 1)] if thorough else [(2, 1), (3, 2)]
    n = 0
    bad = []
    unsup = set()
    for r_ in range(0, len(universe) + (0 if thorough else 1)):
        for store in itertools.combinations(universe, r_):
            for x in bounds:
                for y in bounds:
                    for split, maxset in configs:
                        for remote in ("equal", "diff", "empty"):
                            n += 1
                            try:
                                pr = _fp_problems(f, list(store), x, y, remote, split, maxset)
                            except E.Unsupported as e:
                                unsup.add(str(e))
                                pr = ["UNSUPPORTED-FORM: %s" % e]
                            if pr:
                                bad.append("store %s, range [%d,%d), peer's fingerprint %s, split_factor %d, max_set_size %d: %s" % (list(store), x, y, remote, split, maxset, pr[0]))
    ctx.check(not bad, "C01.R5", PM, "fingerprint-part-table",
              "process_message evaluated on %d (local keys, range, peer's fingerprint {equal, different, empty}, split_factor, max_set_size) cells: equal fingerprints are skipped, "
              "the recursion anchor sends the range's entries, otherwise the sub-ranges cover the whole range, each is described by the fingerprint or the entries of exactly its own keys, "
              "and under the default split at least two hold entries; deviating (%d): %s" % (n, len(bad), bad[:3]), pm.sp)
    ctx.check(n >= (3000 if not thorough else 50000), "C01.R5", PM, "fingerprint-part-table.cells", "%d cells" % n, pm.sp)
    n2 = 0
    bad2 = []
    stores = [(), (2,), (2, 4), (1, 2, 4, 5)]
    for store in stores:
        for x, y in ((1, 5), (4, 2), (3, 3)):
            for theirs in ((), (2,), (3,), (2, 3), (2, 4, 6)):
                for have_local in (False, True):
                    common = [k for k in theirs if k in store]
                    for combo in itertools.product((-1, 0, 1), repeat=len(common)):
                        order = dict(zip(common, combo))
                        variants = [((), ())]
                        if theirs and not combo.count(0) and (not common or combo[0] == 1):
                            variants += [(("t%d" % theirs[0],), ()), ((), ("t%d" % theirs[-1],))]
                        for invalid, notins in variants:
                            n2 += 1
                            try:
                                pr = _item_problems(f, list(store), x, y, list(theirs), order, have_local, invalid, notins)
                            except E.Unsupported as e:
                                pr = ["UNSUPPORTED-FORM: %s" % e]
                            if pr:
                                bad2.append("store %s, range [%d,%d), peer sends %s (their value vs ours %s), have_local=%s, invalid %s, not inserted %s: %s" % (list(store), x, y, list(theirs), order, have_local, list(invalid), list(notins), pr[0]))
    ctx.check(not bad2, "C01.R5", PM, "item-part-table",
              "process_message evaluated on %d (local keys, range, incoming values, order of their value against ours, have_local, validation / insertion outcome) cells; deviating (%d): %s" % (n2, len(bad2), bad2[:3]), pm.sp)
    ctx.check(n2 >= 300, "C01.R5", PM, "item-part-table.cells", "%d cells" % n2, pm.sp)
    # a message with several parts: every part is processed, items before fingerprints; a failing range scan is reported
    try:
        res, log = eval_process_message(f, [2, 4], [("fp", 0, 3, [9]), ("item", 3, 0, [5], False), ("fp", 3, 0, [9])])
        want = [("item", 3, 0, [("e4", "status(e4)")], 1), ("item", 0, 3, [("e2", "status(e2)")], 0), ("item", 3, 0, [("e4", "status(e4)")], 0)]
        okm = res == want and log == [("validate", "t5"), ("put", "t5"), ("on_insert", "t5")]
        detail = "reply %s, effects %s; expected %s" % (res, log, want)
    except E.Unsupported as e:
        okm, detail = False, "UNSUPPORTED-FORM: %s" % e
    ctx.check(okm, "C01.R5", PM, "every-part-processed", detail, pm.sp)
    try:
        res, log = eval_process_message(f, [2, 4], [("item", 1, 5, [3], False)], range_error=True)
        oke = isinstance(res, tuple) and res[0] == "Err"
        detail = "a failing range scan yields %s (spec: the error)" % (res,)
    except E.Unsupported as e:
        oke, detail = False, "UNSUPPORTED-FORM: %s" % e
    ctx.check(oke, "C01.R5", PM, "storage-error-reported", detail, pm.sp)
    ctx.floor("C01.R5", 6)

def r6(ctx):
    """convergence needs that what one side authors is acceptable to the other (shared with C03.R9): an entry held locally but
    dropped by every peer's validation makes the two replicas differ after every session"""
    from . import C03
    C03.local_authoring(ctx, "C01.R6")
    ctx.floor("C01.R6", 5)


def r7(ctx):
    """the listed mechanism "per-entry validation during reconciliation": what sync_process_message lets into the replica is what
    validate_entry / validate_empty accept (shared with C03.R1/R2), and the two session requests reach the replica unchanged
    through the store actor (K14b) - the merge of the two starting sets is a merge of valid entries on both sides"""
    import re
    from . import C03, actorfw
    sub = type(ctx)(ctx.prop, ctx.tier, ctx.facts, ctx.cfg)
    C03.r1(sub)
    C03.r2(sub)
    for o in sub.obligations:
        pass
        o = dict(o)
        o["key"] = re.sub(r"^C\d\d\.R\w+", "C01.R7", o["key"])
        o["rule"] = "C01.R7"
        ctx.obligations.append(o)
        if o["status"] != "holds":
            ctx.violations.append(o)
    ctx.analysed_bodies |= sub.analysed_bodies
    actorfw.claim(ctx, "C01.R7", handlers=("SyncInitialMessage", "SyncProcessMessage"), clients=("sync_initial_message", "sync_process_message"))
    ctx.floor("C01.R7", 20)


def r8(ctx):
    """"each side's sent-count equals the other side's received-count": the counts a side reports are those of its last step -
    the session functions evaluated on every frame script (= C10.R1/R2; the accounting of one step is R3)"""
    from . import C10
    ctx.share("C01.R8", C10.r1, "C10.R1", floor=3)
    ctx.share("C01.R8", C10.r2, "C10.R2", floor=3)


def r9(ctx):
    """the message that opens a session (ranger::Store::initial_message -> Message::init, reached through
    Replica::sync_initial_message) evaluated with the store answered by an oracle: exactly one part, the fingerprint of the
    *whole* set - the circular range [x, x) anchored at the store's first key - as the store computes it for that very range;
    a failing store call is an error, never an empty or partial message (a first message that covered less than everything would
    leave the uncovered keys unreconciled for good: the peer only ever answers about ranges it was asked about). The replica hands
    it out only while open."""
    from . import feval as E, coll
    f = ctx.facts
    IM = "ranger::Store::initial_message"
    b = f.body(IM)
    ctx.touch(b)
    if "ranger::Message::<E>::init" in f.bodies:      # (a private single-caller constructor: RF35 inlined it)
        ctx.touch(f.bodies["ranger::Message::<E>::init"])
    for first_ok in (1, 0):
        for fp_ok in (1, 0):
            if not first_ok and not fp_ok:
                continue
            C = coll.Collections(f)
            log = []

            def oracle(kind, name, payload, site):
                if kind != "call":
                    return None
                t, args, it = payload
                names = [it.tokname(a).strip("&*") for a in args]
                if name == "get_first":
                    log.append(("get_first",))
                    return E.Ok(E.Tok("first-key")) if first_ok else E.Err(E.Tok("store-error"))
                if name == "get_fingerprint":
                    rng = E.describe(it.resolve(args[1]), f)
                    log.append(("get_fingerprint", rng))
                    return E.Ok(E.Tok("fingerprint-of(%s)" % rng)) if fp_ok else E.Err(E.Tok("store-error"))
                if name in ("get_range", "get_range_len", "prefixes_of", "entry_put", "remove_prefix_filtered", "put"):
                    log.append((name,))
                    return None
                if name == "clone":
                    return it.deref_val(args[0]) if args[0][0] == "ref" else args[0]
                return C.handle(kind, name, payload, site)
            key = "initial-message[get_first=%s,get_fingerprint=%s]" % ("ok" if first_ok else "err", "ok" if fp_ok else "err")
            try:
                ret, itp = E.run_it(f, IM, [E.href("store")], {"store": E.Tok("store")}, oracle)
                r = itp.resolve(ret)
                parts = None
                if r is not None and r[0] == "adt" and r[1] == E.RESULT and r[2] == 0:
                    msg = itp.resolve(r[3][0])
                    pv = itp.resolve(E.field(f, msg, "ranger::Message", "parts"))
                    parts = [E.describe(itp.resolve(x), f) for x in pv[2]] if coll.is_seq(pv) else None
                    full = []
                    for x in (pv[2] if coll.is_seq(pv) else []):
                        xv = itp.resolve(x)
                        var = f.adt("ranger::MessagePart")["variants"][xv[2]]["name"] if xv is not None and xv[0] == "adt" else "?"
                        inner = itp.resolve(xv[3].get(0)) if xv is not None and xv[0] == "adt" else None
                        full.append((var, E.describe(inner, f)))
                    parts = full
                got = (E.describe(ret, f)[:40], parts)
            except E.Unsupported as e:
                ctx.bad("C01.R9", IM, key, "UNSUPPORTED-FORM: %s" % e, b.sp)
                continue
            if first_ok and fp_ok:
                want_parts = [("RangeFingerprint", "RangeFingerprint(Range(first-key,first-key),fingerprint-of(Range(first-key,first-key)))")]
                ok = got[1] == want_parts and not [x for x in log if x[0] not in ("get_first", "get_fingerprint")]
            else:
                ok = got[0].startswith("Err") and got[1] is None
            ctx.check(ok, "C01.R9", IM, key, "returns %s, parts %s, store calls %s; spec: %s" % (got[0], got[1], log,
                      "one part: the fingerprint of the full circular range [first, first), computed by the store for that range" if (first_ok and fp_ok) else "the store's error"), b.sp)
    # the replica's entry point: only while open, and it is the store's initial message
    sim = f.body("sync::Replica::<'a, I>::sync_initial_message")
    ctx.touch(sim)
    for closed in (0, 1):
        log = []

        def oracle2(kind, name, payload, site):
            if kind != "call":
                return None
            t, args, it = payload
            if name == "initial_message":
                log.append("initial_message(%s)" % it.tokname(args[0]).strip("&*"))
                return E.Ok(E.Tok("the-initial-message"))
            if name in ("deref", "deref_mut"):
                return None
            return None
        heap = {"info": E.struct(f, "sync::ReplicaInfo", capability=E.Tok("capability"), subscribers=E.Tok("subscribers"), content_status_cb=E.NONE, closed=E.Int(closed))}
        heap["self"] = E.struct(f, "sync::Replica", store=E.Tok("store"), info=E.href("info"))
        key = "replica-initial-message[%s]" % ("closed" if closed else "open")
        try:
            ret, itp = E.run_it(f, sim.path, [E.href("self")], heap, oracle2)
            got = E.describe(itp.resolve(ret), f)
        except E.Unsupported as e:
            ctx.bad("C01.R9", sim.path, key, "UNSUPPORTED-FORM: %s" % e, sim.sp)
            continue
        ok = (got.startswith("Err") and not log) if closed else (got == "Ok(the-initial-message)" and len(log) == 1 and "store" in log[0])
        ctx.check(ok, "C01.R9", sim.path, key, "returns %s, calls %s; spec: %s" % (got, log, "an error, the store is not asked" if closed else "the store's initial message"), sim.sp)
    ctx.floor("C01.R9", 5)


def r10(ctx):
    """what is fingerprinted and sent is everything that is held: the plain scan behind get_range / the range fingerprint yields
    every row of the range, deletion markers included (= C08.R5)"""
    from . import C08
    ctx.share("C01.R10", C08.r5, "C08.R5", floor=4)


def r11(ctx):
    """the frame limit of the session codec bounds the difference two replicas can reconcile within one range (everything a peer
    lacks in a range it holds nothing of travels in one message): it is not lowered below the value the released peers use,
    1 GiB - a smaller limit makes sessions between a well-filled and a fresh replica fail on every attempt"""
    f = ctx.facts
    c = f.const("net::codec::MAX_MESSAGE_SIZE")
    v = c["val"]
    ctx.check(isinstance(v, int) and v >= 1 << 30, "C01.R11", "net::codec::MAX_MESSAGE_SIZE", "frame-limit-not-lowered", "MAX_MESSAGE_SIZE = %s; spec: >= 2^30" % v, c["sp"])
    ctx.floor("C01.R11", 1)

def r12(ctx):
    """what a session compares and sends is computed from the entries held *now*: no per-document memo in the store survives the
    document (C16.R15), and the range fingerprint is the xor-fold over the range scan on every call (C08.R3)"""
    from . import C16, C08
    C16.mem_state(ctx, "C01.R12")
    ctx.share("C01.R12", C08.r3, "C08.R3", keep=lambda k: "get_fingerprint" in k, floor=6)

def r13(ctx):
    """the recursion anchor of the reconciliation is decided by the number of local entries in the range: the range count evaluated
    (= C08.R6) - a count that disagrees with the range scan sends everything where it should split, or splits where nothing is"""
    from . import C08
    C08.range_len(ctx, "C01.R13")
    ctx.floor("C01.R13", 5)

def r14(ctx):
    """"the merge of the two starting sets": what a replica held when the session started it still holds when a later, unrelated
    request fails - the shared write transaction survives a failing body (the failing-body rows of C06.R4; C04-4)"""
    from . import C06
    C06.share_failing_body(ctx, "C01.R14")

def r15(ctx):
    """"the merge of the two starting sets under the document's newest-wins and prefix-deletion rules": the admission rule both sides
    apply is the evaluated one also when an implementation overrides the trait's default put / get_range_len (= C02.R15)"""
    from . import C02
    C02.overrides(ctx, "C01.R15")
    ctx.floor("C01.R15", 1)

def run(ctx):
    ctx.run_rule("C01.R1", r1)
    ctx.run_rule("C01.R2", r2)
    ctx.run_rule("C01.R3", r3)
    ctx.run_rule("C01.R4", r4)
    ctx.run_rule("C01.R5", r5)
    ctx.run_rule("C01.R6", r6)
    ctx.run_rule("C01.R7", r7)
    ctx.run_rule("C01.R8", r8)
    ctx.run_rule("C01.R9", r9)
    ctx.run_rule("C01.R10", r10)
    ctx.run_rule("C01.R11", r11)
    ctx.run_rule("C01.R12", r12)
    ctx.run_rule("C01.R13", r13)
    ctx.run_rule("C01.R14", r14)
    ctx.run_rule("C01.R15", r15)

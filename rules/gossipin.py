"""The gossip ingress (engine::gossip::receive_loop) evaluated (K6') on scripts of received broadcast messages carrying an
entry: every such message leads to exactly one SyncHandle::insert_remote - the validated, sync-gated remote-insert path -
for the loop's document, with the entry decoded from that message and the peer that delivered that message as the providing
peer; an entry the replica rejects does not end the loop (the next message is still applied)."""
import json
from . import mir

LOOP = "engine::gossip::receive_loop"


def _variant_index(f, prefix, name):
    out = set()

    def walk(x):
        if isinstance(x, list):
            if len(x) == 3 and x[0] == "downcast" and x[2] == name:
                out.add(x[1])
            for y in x:
                walk(y)
        elif isinstance(x, dict):
            for y in x.values():
                walk(y)
    for p, b in f.bodies.items():
        if p.startswith(prefix):
            walk(b.rec["blocks"])
    if len(out) != 1:
        raise mir.AnchorMissing("variant %s is matched %d times under %s" % (name, len(out), prefix))
    return out.pop()


def evaluate(f, script, verdicts):
    """script: message names; verdicts: per message whether the replica accepts the entry. Returns (result, log)"""
    from . import feval as E, coll
    received = _variant_index(f, LOOP, "Received")
    log = []
    C = coll.Collections(f)
    pos = [0]
    ins = [0]

    def oracle(kind, name, payload, site):
        if kind == "await":
            nm = str(name)
            if nm == "fut:try_next":
                i = pos[0]
                pos[0] += 1
                if i >= len(script):
                    return E.Ok(E.NONE)
                return E.Ok(E.Some(E.Adt("iroh_gossip::api::Event", received, {0: E.Tok(script[i])})))
            if nm == "fut:insert_remote":
                i = ins[0]
                ins[0] += 1
                return E.Ok(E.UNIT) if verdicts[i] else E.Err(E.Tok("rejected"))
            if nm == "fut:send":
                return E.Ok(E.UNIT)
            return None
        if kind != "call":
            return None
        t, args, it = payload
        names = [it.tokname(a).strip("&*") for a in args]
        full = (t["f"].get("full") or "") + (t["f"].get("path") or "")
        if name == "neighbors":
            return coll.seq("iter", [])
        if name in ("try_next", "next") and names and names[0] == "recv":
            return E.Tok("fut:try_next")
        if name == "from_bytes" and "postcard" in full:
            return E.Ok(E.variant(f, "engine::live::Op", "Put", E.Tok("entry-of(%s)" % names[0])))
        if name == "is_direct":
            return E.Int(1 if "direct" in names[0] else 0)
        if mir.callee_matches(t, r"actor::SyncHandle::\w+$"):
            log.append((name, names[1:]))
            return E.Tok("fut:" + name)
        if name == "send" and names and names[0] == "to_live":
            log.append(("to-live-actor", E.describe(it.resolve(args[1]), f)))
            return E.Tok("fut:send")
        if name in ("as_bytes", "to_bytes"):
            return E.Tok("bytes(%s)" % names[0])
        if name == "fmt_short":
            return E.Tok("short")
        return C.handle(kind, name, payload, site)
    try:
        ret, hp, evs = E.run_async(f, LOOP, [E.Tok("namespace"), E.Tok("recv"), E.Tok("to_live"), E.Tok("sync")], {}, oracle)
        return E.describe(ret, f), log
    except E.Unsupported as e:
        return "UNSUPPORTED-FORM: %s" % e, log


def check(ctx, rule):
    f = ctx.facts
    b = f.body(LOOP + "::{closure#0}")
    ctx.touch(b)
    for label, script, verdicts in (("accepted,accepted", ["m1-direct", "m2"], [1, 1]), ("rejected,accepted", ["m1", "m2-direct"], [0, 1]), ("rejected,rejected,accepted", ["m1", "m2", "m3"], [0, 0, 1])):
        got, log = evaluate(f, script, verdicts)
        ok = got == "Ok(())" and len(log) == len(script)
        for m, e in zip(script, log):
            ok = ok and e[0] == "insert_remote" and len(e[1]) == 4 and e[1][0] == "namespace" and e[1][1] == "entry-of(%s.content)" % m and e[1][2] == "bytes(%s.delivered_from)" % m
        ctx.check(ok, rule, LOOP, "gossip-put[%s]" % label,
                  "messages %s with the replica's verdicts %s: returns %s at the end of the stream, effects %s; spec: per message one insert_remote(the loop's document, the entry decoded from that message, "
                  "the peer that delivered that message, a content status) and nothing else; a rejected entry does not end the loop" % (script, verdicts, got, log), b.sp)
